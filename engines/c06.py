"""C06 -- BANE background/noise maps obey the estimator contract (DESIGN.md 3.4).

Every map that the BANE world produces -- for every stripe layout, worker count and worker
schedule it samples -- is checked against the contract, and the metamorphic relations (shift,
scale) are evaluated between runs whose schedules are drawn independently."""
import os

import numpy as np

from simkit.runner import Outcome
from engines import bane_world as bw
from engines.c07 import _cfg_str, _run

PROPERTY = "C06"
ENGINE = "bane_world"

TIERS = {
    "quick": {"n": 2000, "wall_cap_s": 420, "selftest": 24, "shrink_budget_s": 40},
    "thorough": {"n": 36000, "wall_cap_s": 3000, "selftest": 64, "shrink_budget_s": 90},
}

META = {
    "level": "exploration",
    "fp_is_schedule": True,
    "rule": ("Each case draws an image (Gaussian noise on a dyadic grid, optional gradient, DC offset up to 2^13 sigma, "
             "NaN/inf pixels, blocks, rows, columns, constant images; 2-D/3-D/4-D with slice index; float32/float64), a BANE "
             "configuration (grid >= 1, box >= max(4, grid), cores 1-16, stripes None/1..2*cores, mask on/off, file output "
             "plain/compressed) and runs the real filter_image inside the simulator under independently drawn random "
             "worker schedules: the base image, the image plus a dyadic constant, and the image times +-2^j.  All "
             "single-map clauses are checked on every map; shift and scale relations between the runs.  A run (= one evaluation) is "
             "non-trivial when the parent and at least two worker tasks were interleaved; distinct = new hash of (context-switch sequence, configuration)."),
    "assumptions": [
        "as for C07: the Pool/Condition/shm models of simkit/mp.py represent CPython 3.12 multiprocessing",
        "image values lie on a dyadic grid so that adding a dyadic constant and multiplying by a power of two are exact in the file's dtype (checked per case; relations whose inputs are not exact are skipped and counted)",
        "a shift mismatch is reported only when two further independent shifts mismatch at a common pixel (guards against a sample sitting within rounding error of a clip threshold)",
        "Gaussian-statistics bounds: |bkg-m| <= 7 s/sqrt(Neff), |rms/s-1| <= 0.08+7/sqrt(2 Neff) with Neff the smallest (edge-truncated) box population",
        "sampling of inputs and schedules, not proof",
    ],
    "components": {
        "real": ["AegeanTools.BANE.filter_image/filter_mc_sharemem/_sf2/sigma_filter/sigmaclip/write_fits", "fits_tools.compress",
                 "astropy.io.fits", "numpy/scipy", "CPython Barrier logic", "CPython SharedMemory class"],
        "stub": ["multiprocessing context/Pool/worker processes (kernel tasks)", "condition variable under the barrier",
                 "POSIX shm name space (sandbox directory)", "uuid4", "scheduler and clock (virtual)"],
    },
}

EPS32 = 2.0 ** -22


shrink_hints = bw.shrink_hints
ISOLATE = True          # every case in a forked child: consecutive runs of a case share process state, cases do not


def child_cleanup():
    bw.cleanup()


def prepare():
    bw.setup()


def _count(out, res):
    out.stats["runs"] += 1
    out.stats["kernel_steps"] += res.steps
    out.stats["switches"] += res.switches
    out.sim_time += res.end_time if res.end_time < 1e6 else 0.0
    if res.ntasks >= 3:
        out.fps.add(res.sched_fp + ":" + res.cfg_key)
    out.feed(res.digest)


def _file_values(cfg, img):
    """The physical pixel values of the file (stored values after the cast to the file's dtype, times BSCALE)."""
    dtype = bw.file_dtype(cfg)
    bscale = cfg.get("bscale") or 1.0
    bzero = cfg.get("bzero") or 0.0
    raw = (img - bzero) / bscale
    if cfg["bitpix"] > 0:
        info = np.iinfo(dtype)
        ok = np.isfinite(raw) & (raw == np.round(raw)) & (raw >= info.min) & (raw <= info.max)
        stored = np.where(ok, raw, 0).astype(dtype).astype(np.float64)
        stored[~ok] = np.nan          # not representable: makes _exact() fail, the relation is then skipped
        return stored * bscale + bzero
    return raw.astype(dtype).astype(np.float64) * bscale + bzero


def _exact(cfg, img):
    f = np.isfinite(img)
    return bool(np.all(_file_values(cfg, img)[f] == img[f]))


def _completed(out, res, cfg, what):
    probs = bw.liveness_problems(res) + bw.completion_problems(res, cfg)
    if probs:
        # termination / completeness is C07's business; for C06 a run that does not deliver maps is still a
        # contract violation ("returns background and noise maps of the image's shape")
        out.violation("no-maps", "%s: %s" % (what, probs[0][1]), sig=probs[0][0], cfg=_cfg_str(cfg), layout=str(res.layout))
        return False
    return True


def single_map_problems(cfg, content, vals, bkg, rms):
    """Clauses of the contract that concern one pair of maps.  ``vals`` = pixel values as stored in the file."""
    out = []
    rows, cols = cfg["rows"], cfg["cols"]
    if bkg.shape != (rows, cols) or rms.shape != (rows, cols):
        return [("shape", "maps have shapes %s / %s, image has %s" % (bkg.shape, rms.shape, (rows, cols)))]
    finite = np.isfinite(vals)
    b = bkg.astype(np.float64)
    r = rms.astype(np.float64)
    if finite.any():
        lo, hi = float(vals[finite].min()), float(vals[finite].max())
        slack = EPS32 * max(abs(lo), abs(hi), 1e-300)
        fb = np.isfinite(b)
        if fb.any() and (b[fb].min() < lo - slack or b[fb].max() > hi + slack):
            out.append(("bkg-range", "background [%g, %g] leaves the range of the finite input pixels [%g, %g]"
                        % (b[fb].min(), b[fb].max(), lo, hi)))
        fr = np.isfinite(r)
        rng = hi - lo
        if fr.any() and (r[fr].min() < 0 or r[fr].max() > rng + EPS32 * max(rng, abs(lo), abs(hi))):
            out.append(("rms-range", "noise [%g, %g] outside [0, max-min = %g]" % (r[fr].min(), r[fr].max(), rng)))
        if np.isinf(b).any() or np.isinf(r).any():
            out.append(("inf", "infinite values in the maps"))
    blank = ~finite
    if cfg["mask"]:
        bad = blank & (np.isfinite(b) | np.isfinite(r))
        if bad.any():
            rr, cc = np.argwhere(bad)[0]
            out.append(("mask-missing", "masking on: %d non-finite input pixel(s) are not NaN in both maps, e.g. (%d,%d)"
                        % (int(bad.sum()), rr, cc)))
    # finite far from blanks / no blanks in -> no blanks out (thin images: see known finding D11)
    reach_r = cfg["box"][0] / 2.0 + cfg["grid"][0]
    reach_c = cfg["box"][1] / 2.0 + cfg["grid"][1]
    if blank.any():
        near = np.zeros_like(blank)
        br, bc = np.nonzero(blank)
        R = int(np.floor(reach_r))
        C = int(np.floor(reach_c))
        for r0, c0 in zip(br, bc):
            near[max(0, r0 - R):r0 + R + 1, max(0, c0 - C):c0 + C + 1] = True
        far = ~near
    else:
        far = np.ones_like(blank)
    nf = far & ~(np.isfinite(b) & np.isfinite(r))
    if nf.any():
        rr, cc = np.argwhere(nf)[0]
        kind = "blank-from-nothing" if not blank.any() else "blank-far"
        out.append((kind, "%d pixel(s) farther than box/2+grid from every blank input pixel are not finite, e.g. (%d,%d)%s"
                    % (int(nf.sum()), rr, cc, "" if blank.any() else " (the image has no blank pixel at all)")))
    return out


def _relation_shift(cfg, b0, r0, b1, r1, c, maxabs):
    """Pixels where (b1, r1) != (b0 + c, r0) beyond rounding.  ``maxabs`` = largest pixel magnitude of either
    image: (data - bkg) carries rounding noise of a few 1e-16 * maxabs, which is all that a noise of exactly 0 may
    turn into."""
    b0 = b0.astype(np.float64); b1 = b1.astype(np.float64)
    r0 = r0.astype(np.float64); r1 = r1.astype(np.float64)
    nan_b = np.isnan(b0) != np.isnan(b1)
    nan_r = np.isnan(r0) != np.isnan(r1)
    with np.errstate(invalid="ignore"):
        tol_b = 4 * EPS32 * (abs(c) + np.abs(b0)) + 1e-300
        bad_b = np.abs(b1 - (b0 + c)) > tol_b
        tol_r = 2e-5 * np.abs(r0) + maxabs * 1e-13 + 4 * EPS32 * np.abs(r0) + 1e-300
        bad_r = np.abs(r1 - r0) > tol_r
    bad_b = np.where(np.isnan(b0) | np.isnan(b1), nan_b, bad_b)
    bad_r = np.where(np.isnan(r0) | np.isnan(r1), nan_r, bad_r)
    return bad_b, bad_r


def case(ch):
    out = Outcome()
    cfg = bw.gen_config(ch)
    content = bw.gen_content(ch, cfg)
    hot, line = bw.gen_yield_settings(ch)
    outmode = ch.weighted("file_output", [6, 1, 1])       # none | plain files | compressed files
    if outmode == 2 and (cfg["rows"] < 2 or cfg["cols"] < 2):
        outmode = 1          # decimation (fits_tools.compress) is only defined for shapes >= 2x2
    if outmode:
        cfg["out_base"] = bw.fresh_path("c06out", "")
        cfg["compressed"] = outmode == 2
    if outmode == 1 and ch.chance("via_cli", 1, 2) and cfg.get("bzero") is None:
        # (with a BZERO keyword the float32 files store map - BZERO and lose precision: maps read back from them are
        #  not fit for the exact relations; the file-equality oracle below covers that case with a tolerance)
        cfg["via_cli"] = True          # run through AegeanTools/CLI/BANE.py main(argv); maps read back from its files
    img = bw.make_image(cfg, content)
    vals = _file_values(cfg, img)
    fn = bw.write_image(bw.fresh_path("c06"), cfg, img)
    files = [fn]
    try:
        return _case_body(ch, out, cfg, content, hot, line, outmode, img, vals, fn, files)
    finally:
        bw.remove_quietly(*files)
        if outmode:
            bw.remove_quietly(cfg["out_base"] + "_bkg.fits", cfg["out_base"] + "_rms.fits")


def _case_body(ch, out, cfg, content, hot, line, outmode, img, vals, fn, files):
    out.sample = {"config": _cfg_str(cfg), "content": {k: content[k] for k in ("kind", "offset_pow", "sigma_pow", "blank")},
                  "file_output": ("none", "plain", "compressed")[outmode], "via_cli": bool(cfg.get("via_cli")), "relations": []}

    sched = bw.gen_sched(ch, hot, line) if ch.chance("random_sched", 3, 4) else bw.canonical_sched(hot, line)
    r0 = _run(fn, cfg, sched, ch, fill="payload")
    _count(out, r0)
    if not _completed(out, r0, cfg, "base image"):
        return out
    out.stats["oracle:single_map_clauses"] += 1
    probs = single_map_problems(cfg, content, vals, r0.bkg, r0.rms)
    thin = cfg["rows"] < 2 or cfg["cols"] < 2
    for kind, msg in probs[:1]:
        out.violation(kind, "%s [layout %s, %s schedule]" % (msg, r0.layout, sched["profile"]),
                      sig="thin" if thin else None, cfg=_cfg_str(cfg), layout=str(r0.layout), thin=thin)
        return out
    finite = np.isfinite(vals)

    # ---- files written by filter_image carry the returned maps
    if cfg.get("via_cli"):
        out.stats["probe:via_command_line"] += 1
    if outmode == 1 and not cfg.get("via_cli"):
        out.stats["oracle:files_equal_maps"] += 1
        fits = bw._state["fits"]
        for suffix, arr in (("_bkg.fits", r0.bkg), ("_rms.fits", r0.rms)):
            path = cfg["out_base"] + suffix
            if not os.path.exists(path):
                out.violation("file-missing", "%s was not written" % suffix, sig=None, cfg=_cfg_str(cfg))
                return out
            data = fits.getdata(path)          # astropy applies the BSCALE keyword copied from the input header
            atol = 4 * 2.0 ** -23 * (abs(cfg.get("bzero") or 0.0) + float(np.nanmax(np.abs(arr), initial=0.0))) if cfg.get("bzero") else 0.0
            if data.shape != arr.shape or not np.allclose(data, arr, rtol=2e-7, atol=atol, equal_nan=True):
                out.violation("file-differs", "%s differs from the returned map" % suffix, sig=None, cfg=_cfg_str(cfg))
                return out
    if outmode == 2:
        out.stats["oracle:compressed_files_written"] += 1
        fits = bw._state["fits"]
        for suffix in ("_bkg.fits", "_rms.fits"):
            path = cfg["out_base"] + suffix
            if not os.path.exists(path):
                out.violation("file-missing", "compressed %s was not written" % suffix, sig=None, cfg=_cfg_str(cfg))
                return out
            hc = fits.getheader(path)
            if (hc.get("BN_NPX1"), hc.get("BN_NPX2")) != (cfg["cols"], cfg["rows"]):
                out.violation("file-differs", "compressed %s does not record the image shape (BN_NPX1/2 = %s, %s)"
                              % (suffix, hc.get("BN_NPX1"), hc.get("BN_NPX2")), sig=None, cfg=_cfg_str(cfg))
                return out
    for suffix in ("_bkg.fits", "_rms.fits"):
        if outmode and os.path.exists(cfg["out_base"] + suffix):
            os.remove(cfg["out_base"] + suffix)
    # relation runs keep the same options (compressed output forces a square grid)
    cfg_rel = dict(cfg)

    # ---- constant image
    if content["kind"] == "constant" and finite.any():
        out.stats["oracle:constant_image"] += 1
        c = float(vals[finite][0])
        b = r0.bkg.astype(np.float64)
        r = r0.rms.astype(np.float64)
        fb = np.isfinite(b)
        tol = EPS32 * max(1.0, abs(c))
        if fb.any() and (np.abs(b[fb] - c).max() > tol or np.abs(r[np.isfinite(r)]).max(initial=0.0) > tol):
            out.violation("constant", "constant image %g: background in [%g, %g], noise up to %g [layout %s]"
                          % (c, b[fb].min(), b[fb].max(), np.abs(r[np.isfinite(r)]).max(initial=0.0), r0.layout),
                          sig=None, cfg=_cfg_str(cfg), layout=str(r0.layout))
            return out

    # ---- Gaussian statistics
    if (content["kind"] == "noise" and content["blank"] == "none" and cfg["rows"] >= cfg["box"][0]
            and cfg["cols"] >= cfg["box"][1] and _exact(cfg, img)):      # (the file really holds the generated noise)
        neff = (cfg["box"][0] // 2 - 1) * (cfg["box"][1] // 2 - 1)
        if neff >= 64:
            out.stats["oracle:gaussian_statistics"] += 1
            s = 2.0 ** content["sigma_pow"]
            m = 0.0 if content["offset_pow"] is None else 2.0 ** content["offset_pow"] * (-1 if content["offset_neg"] else 1)
            db = float(np.nanmax(np.abs(r0.bkg.astype(np.float64) - m))) / s
            dr = float(np.nanmax(np.abs(r0.rms.astype(np.float64) / s - 1.0)))
            out.maximum("gaussian_bkg_deviation/allowed", db * np.sqrt(neff) / 7)
            out.maximum("gaussian_rms_deviation/allowed", dr / (0.08 + 7 / np.sqrt(2 * neff)))
            if db > 7 / np.sqrt(neff) or dr > 0.08 + 7 / np.sqrt(2 * neff):
                out.violation("gaussian", "stationary Gaussian noise (mean %g, rms %g, smallest box population %d): "
                              "max |bkg-m| = %.3g s, max |rms/s-1| = %.3g [layout %s]" % (m, s, neff, db, dr, r0.layout),
                              sig=None, cfg=_cfg_str(cfg), layout=str(r0.layout))
                return out

    # ---- history: the same path is rewritten with another image (other shape / BSCALE / NAXIS) and filtered again in
    #      the same process: "any image" includes an image whose file name has been seen before
    if ch.chance("rewrite_same_path", 1, 5):
        cfg2 = dict(cfg)
        cfg2["rows"] = max(2, cfg["rows"] + (3, -2, 7, 0)[ch.draw("rw_rows", 4)])
        cfg2["cols"] = max(2, cfg["cols"] + (-1, 2, 0, 5)[ch.draw("rw_cols", 4)])
        cfg2["bscale"] = (None, 2.0, -2.0, 0.5)[ch.draw("rw_bscale", 4)]
        cfg2["bzero"] = (None, None, 64.0, cfg.get("bzero"))[ch.draw("rw_bzero", 4)]
        if cfg["bitpix"] > 0:
            # integer pixels: the stored values must stay whole numbers, so BSCALE stays one quantum of the grid (its
            # sign and a factor of two may change)
            cfg2["bscale"] = cfg["bscale"] * (1.0, 1.0, -1.0, 0.5)[ch.draw("rw_bscale_int", 4)]
            if cfg2["bzero"] is not None:
                cfg2["bzero"] = 512.0 * abs(cfg2["bscale"])
        cfg2["naxis"] = (2, 3, 4)[ch.draw("rw_naxis", 3)]
        cfg2["nplanes"] = 2 if cfg2["naxis"] > 2 else 1
        cfg2["cube_index"] = ch.draw("rw_cube", cfg2["nplanes"])
        cfg2.pop("via_cli", None)
        content2 = dict(content, kind=("constant", "noise")[ch.draw("rw_kind", 2)], blank="none")
        img2 = bw.make_image(cfg2, content2)
        vals2 = _file_values(cfg2, img2)
        bw.write_image(fn, cfg2, img2)            # same path as the base image
        s2 = bw.gen_sched(ch, hot, line)
        r2 = _run(fn, cfg2, s2, ch, fill="payload")
        _count(out, r2)
        out.stats["oracle:rewritten_path"] += 1
        out.sample["relations"].append({"rewritten_same_path": _cfg_str(cfg2)})
        if not _completed(out, r2, cfg2, "image written over the path of the first image"):
            out.violations[-1]["detail"]["sig"] = "rewritten/" + str(out.violations[-1]["detail"]["sig"])
            return out
        probs = single_map_problems(cfg2, content2, vals2, r2.bkg, r2.rms)
        if not probs and content2["kind"] == "constant":
            c = float(vals2[0, 0])
            b = r2.bkg.astype(np.float64)
            if np.nanmax(np.abs(b - c)) > EPS32 * max(1.0, abs(c)):
                probs = [("constant", "constant image %g: background in [%g, %g]" % (c, np.nanmin(b), np.nanmax(b)))]
        if probs:
            out.violation(probs[0][0], "image written over the path of an earlier image (then %s, now %s): %s"
                          % (_cfg_str(cfg), _cfg_str(cfg2), probs[0][1]), sig="rewritten", cfg=_cfg_str(cfg2), layout=str(r2.layout))
            return out
        bw.write_image(fn, cfg, img)              # restore the base image for the relations below
        out.stats["runs_after_restore"] += 0

    # ---- scale by k = +-2^j : exact
    if ch.chance("do_scale", 2, 3):
        j = ch.pick("scale_pow", (1, -1, 3, -3, 0, 5, -30, 20, -40))      # also far away from unity (absolute tolerances!)
        k = (2.0 ** j) * (-1.0 if ch.chance("scale_neg", 1, 2) or j == 0 else 1.0)
        img_k = bw.make_image(cfg, content, scale=k)
        if _exact(cfg, img_k) and _exact(cfg, img):
            fnk = bw.write_image(bw.fresh_path("c06k"), cfg, img_k)
            files.append(fnk)
            sk = bw.gen_sched(ch, hot, line)
            rk = _run(fnk, cfg_rel, sk, ch, fill="payload")
            _count(out, rk)
            if not _completed(out, rk, cfg, "scaled image"):
                return out
            out.sample["relations"].append({"scale": k, "layout_same": rk.layout == r0.layout})
            if rk.layout == r0.layout:
                out.stats["oracle:scale_exact"] += 1
                eb = (np.float32(k) * r0.bkg)
                er = (np.float32(abs(k)) * r0.rms)

                def mismatches(actual, expect):
                    # exact, except where the float32 result leaves the normal range (|x| < 2^-100): the cast of the
                    # float64 map and the float32 product round differently among denormals, there only smallness is
                    # required
                    tiny = np.abs(expect) < 2.0 ** -100
                    same = (actual == expect) | (np.isnan(actual) & np.isnan(expect)) | (tiny & (np.abs(actual) < 2.0 ** -99))
                    return int(np.count_nonzero(~same))
                nb, nr = mismatches(rk.bkg, eb), mismatches(rk.rms, er)
                if nb or nr:
                    out.violation("scale", "image x %g: %d background and %d noise pixels are not exactly k*bkg / |k|*rms "
                                  "[layout %s]" % (k, nb, nr, r0.layout), sig=None, cfg=_cfg_str(cfg), layout=str(r0.layout))
                    return out
        else:
            out.stats["relation_skipped_inexact"] += 1

    # ---- shift by a dyadic constant
    if ch.chance("do_shift", 3, 4):
        p = ch.pick("shift_pow", (10, 3, 13, 7, 0, 12)) + content["sigma_pow"]       # shifts of 1 .. 8192 noise rms
        c = (2.0 ** p) * (-1.0 if ch.chance("shift_neg", 1, 3) else 1.0)
        shifts = [c, 2.0 * c, -c]
        results = []
        for i, ci in enumerate(shifts):
            img_c = bw.make_image(cfg, content, shift=ci)
            if not (_exact(cfg, img_c) and _exact(cfg, img)):
                out.stats["relation_skipped_inexact"] += 1
                break
            fnc = bw.write_image(bw.fresh_path("c06c"), cfg, img_c)
            files.append(fnc)
            sc = bw.gen_sched(ch, hot, line)
            rc = _run(fnc, cfg_rel, sc, ch, fill="payload")
            _count(out, rc)
            if not _completed(out, rc, cfg, "shifted image"):
                return out
            if rc.layout != r0.layout:
                break
            if i == 0:
                out.stats["oracle:shift_relation"] += 1
            maxabs = float(np.abs(vals[finite]).max()) + abs(ci) if finite.any() else abs(ci)
            bad_b, bad_r = _relation_shift(cfg, r0.bkg, r0.rms, rc.bkg, rc.rms, ci, maxabs)
            results.append((ci, bad_b, bad_r, rc))
            out.sample["relations"].append({"shift": ci, "mismatching_pixels": int(bad_b.sum() + bad_r.sum())})
            if not (bad_b.any() or bad_r.any()):
                break                      # relation holds (or an earlier mismatch is not confirmed)
        if len(results) == 3:
            common_b = results[0][1] & results[1][1] & results[2][1]
            common_r = results[0][2] & results[1][2] & results[2][2]
            if common_b.any() or common_r.any():
                which = "noise" if common_r.any() else "background"
                rr, cc = np.argwhere(common_r if common_r.any() else common_b)[0]
                r1 = results[0][3]
                out.violation("shift", "image + c (c = %g, %g, %g): the %s map does not follow (bkg+c, rms unchanged) at %d "
                              "pixel(s) common to all three shifts, e.g. (%d,%d): rms %g -> %g, bkg %g -> %g for c = %g [layout %s]"
                              % (shifts[0], shifts[1], shifts[2], which, int((common_b | common_r).sum()), rr, cc,
                                 r0.rms[rr, cc], r1.rms[rr, cc], r0.bkg[rr, cc], r1.bkg[rr, cc], shifts[0], r0.layout),
                              sig=None, cfg=_cfg_str(cfg), layout=str(r0.layout))
                return out
            out.stats["probe:fp_flip_unconfirmed"] += 1
        elif len(results) in (1, 2) and (results[-1][1].any() or results[-1][2].any()):
            out.stats["probe:shift_mismatch_unconfirmable"] += 1
    return out
