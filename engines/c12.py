"""C12 -- Region exports (MOC FITS, DS9 reg, .mim) describe exactly the region's sky area (DESIGN.md 4)."""
from simkit.runner import Outcome
from engines import region_machine as rm

PROPERTY = "C12"
ENGINE = "region_machine"

TIERS = {
    "quick": {"n": 3000, "wall_cap_s": 420, "selftest": 32, "shrink_budget_s": 40},
    "thorough": {"n": 60000, "wall_cap_s": 3000, "selftest": 64, "shrink_budget_s": 90},
}

META = {
    "level": "exploration",
    "rule": ("Same history machine as C08 (depth 1-12) with export operations placed anywhere in the history: write_fits / "
             "MIMAS.mim2fits read back with astropy and NUNIQ-decoded, write_reg / mim2reg parsed and every polygon matched "
             "against hp.boundaries of the unique (level, pixel) whose corners it shows, save+load of .mim files compared "
             "pixel for pixel.  Exports are taken before and after queries that demote the representation, after set "
             "operations, after restart.  A history is non-trivial when it contains >= 1 export and >= 2 operations; "
             "distinct = new operation-sequence shape."),
    "assumptions": [
        "astropy's FITS table reader and hp.boundaries are the trusted base of the decoders",
        "DS9 vertices are matched within 0.25 arcsec (the file prints 0.01 s of time = 0.15 arcsec)",
        "sampling of histories, not proof",
    ],
    "components": {"real": ["AegeanTools.regions.Region.write_fits/_uniq/write_reg/save/load", "AegeanTools.MIMAS.mim2fits/mim2reg",
                            "AegeanTools/data/MOC.fits template", "files on a real temp dir"],
                   "stub": ["none"]},
}


shrink_hints = rm.shrink_hints


def prepare():
    rm.setup()


def case(ch):
    out = Outcome()
    m = rm.run_history(ch, out, min_depth=1, max_depth=12, export_weight=6)
    if not any(("write_" in t or "save()+load()" in t) for t in m.trace):
        out.fps.clear()           # no export in this history: not counted as non-trivial for C12
    return out
