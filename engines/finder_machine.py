"""finder_machine -- seeded histories of source-finding operations (DESIGN.md section 5).

Operations: blind find / priorized fit on synthetic images, repeated on fresh or reused finders, after an
unrelated history prefix (another image, galactic WCS), with the internal background estimation running
inside the BANE world under different worker schedules, and with cooperative faults injected at the
fitter seam (the failure modes the code names: AegeanNaNModelError from the optimiser, success /
errorbars = False).  Oracles: the operation completes, row invariants on every catalogue, re-run identity,
fault isolation.
"""
import copy
import math
import os
import re
import shutil
import struct
import sys
import tempfile
import warnings

import numpy as np

from simkit.kernel import HarnessError

REPO = os.environ.get("VERIF_REPO", "/repo")
_state = {}

ALL_FLAGS = 0x7F
FITERR, NOTFIT, WCSERR, PRIORIZED = 2, 16, 32, 64


def setup():
    if "sf" in _state:
        if _state.get("pid") != os.getpid():
            _fresh_tmp()
        return _state["sf"]
    if REPO not in sys.path:
        sys.path.insert(0, REPO)
    warnings.simplefilter("ignore")
    np.seterr(all="ignore")
    import logging
    logging.disable(logging.CRITICAL)
    import AegeanTools
    from AegeanTools import catalogs, exceptions, fitting, models, source_finder
    here = os.path.realpath(os.path.dirname(AegeanTools.__file__))
    if not here.startswith(os.path.realpath(REPO) + os.sep):
        raise HarnessError("AegeanTools imported from %s, not from %s" % (here, REPO))
    from astropy.io import fits
    _state.update(sf=source_finder, models=models, fitting=fitting, catalogs=catalogs, exceptions=exceptions, fits=fits)
    _fresh_tmp()
    return source_finder


def _fresh_tmp():
    _state["pid"] = os.getpid()
    _state["tmp"] = tempfile.mkdtemp(prefix="verif-finder-")
    import multiprocessing.util as mpu
    mpu.Finalize(None, _cleanup, exitpriority=-100)
    import atexit
    atexit.register(_cleanup)


def _cleanup():
    tmp = _state.get("tmp")
    if tmp and _state.get("pid") == os.getpid() and os.path.isdir(tmp):
        shutil.rmtree(tmp, ignore_errors=True)


def tmpdir():
    setup()
    return _state["tmp"]


# ------------------------------------------------------------------------------------------
# synthetic images
# ------------------------------------------------------------------------------------------
def gen_image(ch, galactic=False, small=False):
    """Draw the description of a synthetic image (all numbers from the decision stream)."""
    spec = {"galactic": bool(galactic)}
    layout = ("scatter", "scatter", "grid", "blend", "empty", "tiny", "nested")[ch.weighted("layout", [4, 3, 2, 2, 1, 1, 2])]
    if small:
        layout = "scatter"
    spec["layout"] = layout
    n = 48 + 8 * ch.draw("size", 3 if small else 9)
    if layout == "grid":
        n = max(n, 96)
    spec["rows"], spec["cols"] = n, n + 8 * ch.draw("aspect", 3)
    spec["pix_arcsec"] = (20.0, 10.0, 30.0)[ch.draw("pixscale", 3)]
    spec["beam_pix"] = (3.0, 4.0, 3.5)[ch.draw("beam_pix", 3)]
    # reference positions: ordinary, straddling RA = 0, high |dec|, and a header that gives the reference longitude as
    # a negative angle (CRVAL1 = -10 instead of 350: valid FITS; the WCS library then returns negative longitudes)
    spec["crval"] = ((30.0, -20.0), (359.95, 10.0), (120.0, -75.0), (0.02, 45.0), (-10.0, 5.0))[ch.draw("crval", 5)]
    spec["proj"] = ("SIN", "SIN", "TAN", "ZEA", "ARC", "STG")[ch.draw("projection", 6)]
    # header flavours of a valid image: CDELT or CD matrix, elliptical restoring beam with a position angle,
    # float32/float64 pixels, a 2-D image or plane `cube_index` of a 3-D cube
    spec["cd_matrix"] = bool(ch.chance("cd_matrix", 1, 4))
    spec["beam_ratio"] = (1.0, 1.0, 1.0, 1.25)[ch.draw("beam_ratio", 4)]
    spec["bpa"] = (0.0, 30.0, -60.0)[ch.draw("bpa", 3)] if spec["beam_ratio"] != 1.0 else 0.0
    spec["float64"] = bool(ch.chance("float64", 1, 5))
    spec["cube"] = bool(ch.chance("cube", 1, 8))
    # how the finder learns the beam and the noise/background: beam from the header or as a parameter (header without
    # BMAJ/BMIN), noise/background forced as numbers or read from (constant) map files
    spec["beam_param"] = bool(ch.chance("beam_param", 1, 6))
    spec["aux_files"] = bool(ch.chance("aux_files", 1, 5))
    # a position-dependent psf map (imgpsf=): the restoring beam is 20 % larger in one half of the field
    spec["psf_map"] = bool(ch.chance("psf_map", 1, 8))
    # a field far from the projection's reference point (CRPIX outside the image, as in the repository's own
    # 1904-66_SIN test image): the pixel area on the sky differs from that at the reference pixel by 2 % or more
    spec["offaxis"] = ch.draw("offaxis", 4) + 1 if ch.chance("offaxis?", 1, 8) else 0
    spec["noise_seed"] = ch.draw("noise_seed", 1 << 20)
    spec["noise"] = 1.0 if not ch.chance("noiseless", 1, 8) else 0.02
    rows, cols = spec["rows"], spec["cols"]
    srcs = []
    b = spec["beam_pix"]
    if layout in ("scatter", "tiny"):
        k = ch.draw("nsrc", 13 if not small else 4) + (0 if layout == "scatter" else 3)
        for _ in range(k):
            x = 6 + ch.draw("sx", rows - 12) + ch.draw("sxf", 8) / 8.0
            y = 6 + ch.draw("sy", cols - 12) + ch.draw("syf", 8) / 8.0
            if layout == "tiny":
                amp = (5.3, 5.6, 6.0)[ch.draw("tiny_amp", 3)]
                a = bb = b
            else:
                amp = (8.0, 15.0, 40.0, 200.0, 6.0)[ch.draw("amp", 5)]
                a = b * (1.0, 1.0, 1.4, 2.0)[ch.draw("maj", 4)]
                bb = b * (1.0 if a == b else (1.0, 1.2)[ch.draw("min", 2)])
            pa = ch.draw("pa", 12) * 15.0 - 90.0
            if ch.chance("negative", 1, 6):
                amp = -amp
            srcs.append((x, y, amp, a, bb, pa))
    elif layout == "grid":
        step = int(5 * b)
        cnt = 0
        for gx in range(8, rows - 8, step):
            for gy in range(8, cols - 8, step):
                amp = 12.0 + 3.0 * ((cnt * 7) % 5)
                srcs.append((gx + 0.25, gy + 0.5, amp, b, b, 0.0))
                cnt += 1
        spec["grid_n"] = cnt
    elif layout == "blend":
        k = 1 + ch.draw("nblend", 3)
        for _ in range(k):
            x = 12 + ch.draw("sx", rows - 24)
            y = 12 + ch.draw("sy", cols - 24)
            sep = b * (0.8, 1.1, 1.5)[ch.draw("sep", 3)]
            ang = ch.draw("blend_ang", 8) * math.pi / 4
            amp = (20.0, 50.0)[ch.draw("amp", 2)]
            srcs.append((x, y, amp, b, b, 0.0))
            srcs.append((x + sep * math.cos(ang), y + sep * math.sin(ang), amp * (1.0, 0.6)[ch.draw("ratio", 2)], b, b, 0.0))
            if ch.chance("triple", 1, 3):
                srcs.append((x - sep * math.sin(ang), y + sep * math.cos(ang), amp * 0.8, b, b, 0.0))
    elif layout == "nested":
        # a diagonal chain of blended sources (one long diagonal island) with a compact neighbour in the empty corner of
        # its bounding box: two separate islands, one inside the other's box
        k = 1 + ch.draw("nnested", 2)
        for _ in range(k):
            x0 = 14 + ch.draw("sx", max(1, rows - 60))
            y0 = 14 + ch.draw("sy", max(1, cols - 60))
            flip = ch.draw("nest_flip", 2)
            nlink = 4 + ch.draw("nest_len", 3)
            step = b * 0.9
            for i in range(nlink):
                yy_ = y0 + i * step if not flip else y0 + (nlink - 1 - i) * step
                srcs.append((x0 + i * step, yy_, 25.0, b, b, 0.0))
            span = (nlink - 1) * step
            cx = x0 + (0.12 if ch.draw("nest_corner", 2) else 0.88) * span
            cy = (y0 + 0.88 * span) if ((cx < x0 + span / 2) != bool(flip)) else (y0 + 0.12 * span)
            srcs.append((cx, cy, (60.0, 12.0)[ch.draw("nest_amp", 2)], b, b, 0.0))
    spec["sources"] = srcs
    spec["nan_patch"] = None
    if ch.chance("nan_patch", 1, 6):
        spec["nan_patch"] = (ch.draw("np_x", rows - 8), ch.draw("np_y", cols - 8), 2 + ch.draw("np_w", 8))
    return spec


def render(spec):
    rows, cols = spec["rows"], spec["cols"]
    rs = np.random.RandomState(spec["noise_seed"])
    img = rs.normal(0.0, spec["noise"], size=(rows, cols))
    xx, yy = np.mgrid[0:rows, 0:cols]
    fwhm2sig = 1.0 / (2.0 * math.sqrt(2.0 * math.log(2.0)))
    for (x, y, amp, a, b, pa) in spec["sources"]:
        sx, sy = a * fwhm2sig, b * fwhm2sig
        t = math.radians(pa)
        dx, dy = xx - x, yy - y
        u = dx * math.cos(t) + dy * math.sin(t)
        v = -dx * math.sin(t) + dy * math.cos(t)
        img += amp * np.exp(-0.5 * ((u / sx) ** 2 + (v / sy) ** 2))
    if spec["nan_patch"]:
        px, py, w = spec["nan_patch"]
        img[px:px + w, py:py + w] = np.nan
    return img.astype(np.float32)


def write_image(spec, path):
    fits = _state["fits"]
    img = render(spec)
    if spec.get("float64"):
        img = img.astype(np.float64)
    if spec.get("cube"):
        # plane 1 of a three-plane cube holds the image; the other planes hold something else
        img = np.stack([img * 0.0 + 1000.0, img, -img])
    hdu = fits.PrimaryHDU(img)
    h = hdu.header
    pix = spec["pix_arcsec"] / 3600.0
    proj = spec.get("proj", "SIN")
    if spec["galactic"]:
        h["CTYPE1"], h["CTYPE2"] = "GLON-" + proj, "GLAT-" + proj
    else:
        h["CTYPE1"], h["CTYPE2"] = "RA---" + proj, "DEC--" + proj
    h["CRVAL1"], h["CRVAL2"] = spec["crval"]
    h["CRPIX1"], h["CRPIX2"] = spec["cols"] / 2.0 + 0.5, spec["rows"] / 2.0 + 0.5
    if spec.get("offaxis"):
        # offsets in degrees; the field is moved towards the equator so that it stays clear of the poles
        dx, dy = ((12.0, 0.0), (0.0, 12.0), (8.0, 9.0), (-9.0, 8.0))[spec["offaxis"] - 1]
        if spec["crval"][1] < 0:
            dy = -dy
        h["CRPIX1"] += round(dx / pix)
        h["CRPIX2"] += round(dy / pix)
    if spec.get("cd_matrix"):
        h["CD1_1"], h["CD1_2"], h["CD2_1"], h["CD2_2"] = -pix, 0.0, 0.0, pix
    else:
        h["CDELT1"], h["CDELT2"] = -pix, pix
    if not spec.get("beam_param"):
        h["BMAJ"] = spec["beam_pix"] * pix * spec.get("beam_ratio", 1.0)
        h["BMIN"] = spec["beam_pix"] * pix
        h["BPA"] = spec.get("bpa", 0.0)
    if spec.get("cube"):
        h["CTYPE3"], h["CRVAL3"], h["CRPIX3"], h["CDELT3"] = "FREQ", 1.0e9, 1.0, 1.0e6
    h["BUNIT"] = "Jy/beam"
    h["EQUINOX"] = 2000.0
    hdu.writeto(path, overwrite=True)
    if spec.get("psf_map"):
        # planes: major axis, minor axis (degrees), position angle; same sky grid as the image
        a = np.full((spec["rows"], spec["cols"]), spec["beam_pix"] * pix * spec.get("beam_ratio", 1.0))
        b = np.full((spec["rows"], spec["cols"]), spec["beam_pix"] * pix)
        a[:, spec["cols"] // 2:] *= 1.2
        b[:, spec["cols"] // 2:] *= 1.2
        psf = fits.PrimaryHDU(np.stack([a, b, np.full_like(a, spec.get("bpa", 0.0))]))
        for key in ("CTYPE1", "CTYPE2", "CRVAL1", "CRVAL2", "CRPIX1", "CRPIX2", "CDELT1", "CDELT2", "CD1_1", "CD1_2", "CD2_1", "CD2_2"):
            if key in h:
                psf.header[key] = h[key]
        psf.writeto(path[:-5] + "_psf.fits", overwrite=True)
    if spec.get("aux_files"):
        # constant noise / background maps with the image's header, next to the image
        plane = np.zeros((spec["rows"], spec["cols"]), dtype=np.float32)
        for suffix, value in (("_rms.fits", spec["noise"]), ("_bkg.fits", 0.0)):
            aux = fits.PrimaryHDU(plane + np.float32(value))
            for key in ("CTYPE1", "CTYPE2", "CRVAL1", "CRVAL2", "CRPIX1", "CRPIX2"):
                aux.header[key] = h[key]
            aux.writeto(path[:-5] + suffix, overwrite=True)
    return path


def finder_kwargs(spec, path):
    """Keyword arguments that tell the finder the beam and the noise/background for this image."""
    kw = {}
    pix = spec["pix_arcsec"] / 3600.0
    if spec.get("beam_param"):
        # a Beam object, as the command line front end passes it (the docstring of find_sources_in_image speaks of a
        # tuple, load_globals of a Beam; only the latter works)
        from AegeanTools.wcs_helpers import Beam
        kw["beam"] = Beam(spec["beam_pix"] * pix * spec.get("beam_ratio", 1.0), spec["beam_pix"] * pix, spec.get("bpa", 0.0))
    if spec.get("psf_map"):
        kw["imgpsf"] = path[:-5] + "_psf.fits"
    if spec.get("aux_files"):
        kw["rmsin"], kw["bkgin"] = path[:-5] + "_rms.fits", path[:-5] + "_bkg.fits"
    else:
        kw["rms"], kw["bkg"] = spec["noise"], 0.0
    return kw


# ------------------------------------------------------------------------------------------
# catalogue comparison and invariants
# ------------------------------------------------------------------------------------------
def _bits(v):
    if isinstance(v, (float, np.floating)):
        f = float(v)
        if f != f:
            return "nan"
        return struct.pack(">d", f).hex()
    if isinstance(v, (int, np.integer)):
        return "i%d" % int(v)
    return repr(v)


def row_key(src):
    """All catalogued attributes except the uuid, floats compared bit for bit."""
    out = [type(src).__name__]
    for name in src.names:
        if name == "uuid":
            continue
        out.append(name + "=" + _bits(getattr(src, name, None)))
    return tuple(out)


def catalogue_key(sources):
    return [row_key(s) for s in sources]


def table_text(sources, tag):
    """The csv table(s) save_catalog writes for this catalogue (column names included), uuids blanked."""
    catalogs = _state["catalogs"]
    base = os.path.join(tmpdir(), "cat_%s.csv" % tag)
    for f in os.listdir(tmpdir()):
        if f.startswith("cat_%s" % tag):
            os.remove(os.path.join(tmpdir(), f))
    catalogs.save_catalog(base, list(sources))
    text = []
    for f in sorted(os.listdir(tmpdir())):
        if f.startswith("cat_%s" % tag):
            with open(os.path.join(tmpdir(), f)) as fh:
                body = fh.read()
            body = re.sub(r"[0-9a-f]{8}-[0-9a-f]{4}-[0-9a-f]{4}-[0-9a-f]{4}-[0-9a-f]{12}", "UUID", body)
            text.append(f[len("cat_%s" % tag):] + "\n" + body)
            os.remove(os.path.join(tmpdir(), f))
    return "\n".join(text)


_SEXA = re.compile(r"^([+-]?)(\d+):(\d+):(\d+)(?:\.(\d+))?$")


def parse_sexagesimal(s):
    """-> (value, half_unit_of_last_digit) in the string's own unit (hours or degrees)."""
    m = _SEXA.match(str(s).strip())
    if not m:
        return None
    sign, d, mi, sec, frac = m.groups()
    secs = float(sec + ("." + frac if frac else ""))
    val = int(d) + int(mi) / 60.0 + secs / 3600.0
    half = 0.5 * 10.0 ** (-len(frac or "")) / 3600.0
    # a field that rounds up to 60 ("-19:59:60.00") still denotes the right angle; that every printed field stays
    # below 60 is property C17's clause, not C03's, so it is not flagged here
    return (-val if sign == "-" else val, half)


def row_invariants(sources):
    """Returns [(kind, message)] for the first violated invariant of a catalogue."""
    models = _state["models"]
    comps = [s for s in sources if isinstance(s, models.ComponentSource)]
    isles = [s for s in sources if isinstance(s, models.IslandSource)]
    seen = {}
    for s in comps:
        key = (s.island, s.source)
        if key in seen:
            return [("duplicate-id", "two components share (island, source) = %s" % (key,))]
        seen[key] = s
    uu = [s.uuid for s in comps]
    if len(set(uu)) != len(uu):
        return [("duplicate-uuid", "two components share a uuid")]
    by_isle = {}
    for s in comps:
        by_isle.setdefault(s.island, []).append(s.source)
    for isl, nums in by_isle.items():
        if sorted(nums) != list(range(len(nums))):
            return [("numbering", "components of island %s are numbered %s, not 0..%d" % (isl, sorted(nums), len(nums) - 1))]
    for s in comps:
        who = "component (%s,%s)" % (s.island, s.source)
        fl = s.flags
        try:
            ok_flags = int(fl) == fl and 0 <= int(fl) <= ALL_FLAGS
        except (TypeError, ValueError):
            ok_flags = False
        if not ok_flags:
            return [("flags", "%s has flags %r outside the seven documented bits" % (who, fl))]
        fl = int(fl)
        if fl & WCSERR:
            continue
        if not (s.a >= s.b > 0):
            return [("shape", "%s: a=%r b=%r violates a >= b > 0" % (who, s.a, s.b))]
        if not (-90 < s.pa <= 90):
            return [("pa-range", "%s: pa=%r outside (-90, 90]" % (who, s.pa))]
        if not (0 <= s.ra < 360) or not (abs(s.dec) <= 90):
            return [("coord-range", "%s: ra=%r dec=%r out of range" % (who, s.ra, s.dec))]
        if not (fl & (FITERR | NOTFIT)):
            for e in ("err_ra", "err_dec", "err_peak_flux", "err_int_flux", "err_a", "err_b", "err_pa"):
                v = getattr(s, e)
                if not (v == -1 or (np.isfinite(v) and v > 0)):
                    return [("error-value", "%s (flags %d): %s = %r is neither positive and finite nor exactly -1" % (who, fl, e, v))]
        pr = parse_sexagesimal(s.ra_str)
        pd = parse_sexagesimal(s.dec_str)
        if pr is None or pd is None:
            return [("coord-string", "%s: malformed coordinate strings %r %r" % (who, s.ra_str, s.dec_str))]
        dra = abs(pr[0] * 15.0 - s.ra)
        dra = min(dra, 360.0 - dra)
        if dra > pr[1] * 15.0 * 1.02 + 1e-12 or abs(pd[0] - s.dec) > pd[1] * 1.02 + 1e-12:
            return [("coord-string", "%s: ra_str %r / dec_str %r disagree with ra=%.9f dec=%.9f" % (who, s.ra_str, s.dec_str, s.ra, s.dec))]
        if s.psf_a > 0 and s.psf_b > 0 and np.isfinite(s.peak_flux) and np.isfinite(s.int_flux) and s.peak_flux != 0:
            expect = s.peak_flux * s.a * s.b / (s.psf_a * s.psf_b)
            if abs(s.int_flux - expect) > 0.01 * abs(expect):
                return [("int-flux", "%s: int_flux %.6g but peak*a*b/(psf_a*psf_b) = %.6g" % (who, s.int_flux, expect))]
    for isl in isles:
        n = len(by_isle.get(isl.island, []))
        if isl.components != n:
            return [("island-components", "island %s claims %s components, the catalogue has %d" % (isl.island, isl.components, n))]
    return []


class _RefIsland:
    def __init__(self, bounding_box, mask):
        self.bounding_box = bounding_box
        self.mask = mask          # True = pixel of the box that does NOT belong to the island


def reference_islands(img, rms, seed_clip, flood_clip):
    """Independent detection of the pixel groups (not the code under test): 8-connected groups of finite pixels with
    |signal/noise| >= flood_clip that contain a pixel with |signal/noise| > seed_clip; bounding box with exclusive upper
    bounds, mask over the box."""
    from scipy import ndimage
    snr = np.abs(np.asarray(img, dtype=float) / np.asarray(rms, dtype=float))
    ok = np.isfinite(snr) & (snr >= flood_clip)
    lab, n = ndimage.label(ok, structure=np.ones((3, 3)))
    out = []
    for i, sl in enumerate(ndimage.find_objects(lab)):
        mine = lab[sl] == i + 1
        if not np.any(snr[sl][mine] > seed_clip):
            continue
        out.append(_RefIsland(((sl[0].start, sl[0].stop), (sl[1].start, sl[1].stop)), ~mine))
    return out


def island_vs_pixels(finder, sources, innerclip, outerclip):
    """Island rows against the detected pixel groups, which are recomputed here independently of the finder (on the
    finder's own background-subtracted image and noise map)."""
    models = _state["models"]
    sf = _state["sf"]
    isles = [s for s in sources if isinstance(s, models.IslandSource)]
    if not isles:
        return []
    gd = finder.global_data
    ref = reference_islands(gd.img, gd.rmsimg, innerclip, min(outerclip, innerclip))
    by_box = {}
    for r in ref:
        by_box.setdefault(tuple(r.bounding_box[0]) + tuple(r.bounding_box[1]), []).append(r)
    for isl in isles:
        cands = by_box.get(tuple(int(v) for v in isl.extent))
        if not cands:
            return [("island-extent", "island %s: extent %s is not the bounding box of any detected pixel group (%d groups)"
                     % (isl.island, list(isl.extent), len(ref)))]
        # several groups can share a bounding box only in contrived cases; take the one with the closest pixel count
        r = min(cands, key=lambda c: abs(int(np.count_nonzero(~c.mask)) - int(isl.pixels)))
        (xmin, xmax), (ymin, ymax) = r.bounding_box
        if list(isl.extent) != [xmin, xmax, ymin, ymax]:
            return [("island-extent", "island %s: extent %s but the pixel group spans %s" % (isl.island, list(isl.extent), [xmin, xmax, ymin, ymax]))]
        npx = int(np.count_nonzero(~r.mask))
        if int(isl.pixels) != npx:
            return [("island-pixels", "island %s: %s pixels reported, the pixel group has %d" % (isl.island, isl.pixels, npx))]
        box = np.array(gd.img[xmin:xmax, ymin:ymax], dtype=float)
        box[r.mask] = np.nan
        peak = np.nanmax(box) if np.nanmax(box) >= -np.nanmin(box) else np.nanmin(box)
        if np.isfinite(isl.peak_flux) and not np.isclose(isl.peak_flux, peak, rtol=1e-6):
            alt = np.nanmin(box) if peak > 0 else np.nanmax(box)
            if not np.isclose(isl.peak_flux, alt, rtol=1e-6):
                return [("island-peak", "island %s: peak_flux %r but the brightest island pixel is %r" % (isl.island, isl.peak_flux, peak))]
        # the island's position is the sky position of its peak pixel
        if np.isfinite(isl.peak_flux) and np.isfinite(isl.ra) and np.isfinite(isl.dec):
            where = np.argwhere(box == isl.peak_flux)
            if len(where):
                ok = False
                for (ix, iy) in where:
                    ra, dec = gd.wcshelper.pix2sky([ix + xmin, iy + ymin])
                    if ra < 0:
                        ra += 360
                    dra = abs(ra - isl.ra)
                    if min(dra, 360 - dra) < 1e-7 and abs(dec - isl.dec) < 1e-7:
                        ok = True
                        break
                if not ok:
                    return [("island-position", "island %s: (ra, dec) = (%.7f, %.7f) is not the sky position of its peak pixel"
                             % (isl.island, isl.ra, isl.dec))]
    return []


# ------------------------------------------------------------------------------------------
# fit faults (cooperative, at the fitter seam)
# ------------------------------------------------------------------------------------------
class FitFault:
    """Wraps source_finder.do_lmfit: the k-th call fails in one of the ways the code names."""

    def __init__(self, k, kind):
        self.k = k
        self.kind = kind
        self.calls = 0
        self.fired = False

    def install(self):
        sf = _state["sf"]
        fitting = _state["fitting"]
        self.real = sf.do_lmfit
        self.real_covar = sf.covar_errors
        fault = self

        def covar_errors(*a, **kw):
            # the covariance step that follows the k-th fit meets a singular matrix
            if fault.kind == "singular" and fault.calls - 1 == fault.k and not fault.fired:
                fault.fired = True
                real_inv = fitting.inv

                def inv(*aa, **kk):
                    raise np.linalg.LinAlgError("injected: singular matrix")
                fitting.inv = inv
                try:
                    return fault.real_covar(*a, **kw)
                finally:
                    fitting.inv = real_inv
            return fault.real_covar(*a, **kw)
        sf.covar_errors = covar_errors

        def do_lmfit(*a, **kw):
            i = fault.calls
            fault.calls += 1
            if i == fault.k and fault.kind != "singular":
                fault.fired = True
                if fault.kind == "nan":
                    raise _state["exceptions"].AegeanNaNModelError("injected: optimiser drove the model non-finite")
                result, params = fault.real(*a, **kw)
                if fault.kind == "nosuccess":
                    result.success = False
                else:
                    result.errorbars = False
                return result, params
            return fault.real(*a, **kw)
        sf.do_lmfit = do_lmfit

    def remove(self):
        _state["sf"].do_lmfit = self.real
        _state["sf"].covar_errors = self.real_covar


class CallCounter:
    def install(self):
        sf = _state["sf"]
        self.real = sf.do_lmfit
        self.calls = 0
        me = self

        def do_lmfit(*a, **kw):
            me.calls += 1
            return me.real(*a, **kw)
        sf.do_lmfit = do_lmfit

    def remove(self):
        _state["sf"].do_lmfit = self.real
