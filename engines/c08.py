"""C08 -- Region operations are set algebra on sky pixels, for every history (DESIGN.md 4)."""
from simkit.runner import Outcome
from engines import region_machine as rm

PROPERTY = "C08"
ENGINE = "region_machine"

TIERS = {
    "quick": {"n": 6000, "wall_cap_s": 420, "selftest": 32, "shrink_budget_s": 40},
    "thorough": {"n": 80000, "wall_cap_s": 5400, "selftest": 64, "shrink_budget_s": 90},
}

META = {
    "level": "exploration",
    "rule": ("Each case is a history of 2-12 operations drawn from one seeded decision stream over a pool of <= 4 live Region "
             "objects (depth 2-10): new, add_circles (scalar/vector, poles, RA wrap, depth None/equal/coarser/deeper), "
             "add_poly, add_pixels (+_renorm or alone), union with equal/coarser/finer regions, without, intersect, "
             "symmetric_difference, self-aliasing, depth-mismatch rejections, queries (sky_within scalar/vector/degrees/NaN, "
             "get_demoted, get_area, repr), deepcopy, save/load, MIMAS.combine_regions / intersect_regions on saved files, "
             "and the restart fault (all objects dropped, pool rebuilt from the .mim files).  A per-history random subset of "
             "operations is enabled (swarm).  After every operation every live region is compared, through a deep copy, "
             "with a reference model (set of deepest-level pixel ids).  A history is non-trivial with >= 2 operations; "
             "distinct = new operation-sequence shape (numbers abstracted).  In addition every run executes the bounded-exhaustive "
             "part as fixed cases: all 4096 three-letter words (depth 3) and all 256 two-letter words (depth 2) over a 16-operation alphabet (add circle / coarse circle / "
             "add_pixels alone / add_pixels+renorm / union same, finer, coarser / without / intersect / symmetric_difference / "
             "get_demoted / sky_within / get_area / save+load / restart / self-union) applied to a fixed three-region setup at "
             "depth 2 and depth 3."),
    "assumptions": [
        "healpy's nested-index arithmetic and query_disc/query_polygon/ang2pix results are the trusted base (the geometric correctness of those calls is property C09, not this one)",
        "integer-valued float identifiers are not flagged (not observable through any API); fractional or out-of-range ones are",
        "observation uses copy.deepcopy, which preserves the aliasing between the demoted cache and the deepest level",
        "sampling of histories, not proof",
    ],
    "components": {"real": ["AegeanTools.regions.Region (all methods)", "AegeanTools.MIMAS.combine_regions/intersect_regions/save_region/Dummy",
                            "pickle files on a real temp dir", "healpy"],
                   "stub": ["none (the 'restart' fault drops all Python objects and reloads from disk)"]},
}


shrink_hints = rm.shrink_hints


def prepare():
    rm.setup()


def fixed_cases(tier="quick"):
    """Bounded-exhaustive part: every word of length 3 (depth 3) and of length 2 (depth 2) over the 16-letter alphabet
    of engines/region_machine.py, in blocks of all words with a given first letter."""
    n = len(rm.LETTERS)
    cases = ([{"mode": 63, "enum_confirm": 1, "enum_depth": 0, "enum_block": b, "enum_second": 0} for b in range(n)] +
             [{"mode": 63, "enum_confirm": 1, "enum_depth": 1, "enum_block": b, "enum_second": c} for b in range(n) for c in range(n)])
    if tier == "thorough":
        # all 65 536 four-letter words at depth 3, in blocks of 256 (given first two letters)
        cases += [{"mode": 63, "enum_confirm": 1, "enum_depth": 1, "enum_len4": 1, "enum_block": b, "enum_second": c}
                  for b in range(n) for c in range(n)]
    return cases


def _enum_case(ch, out):
    depth = 2 + ch.draw("enum_depth", 2)
    first = rm.LETTERS[ch.draw("enum_block", len(rm.LETTERS))]
    sec = rm.LETTERS[ch.draw("enum_second", len(rm.LETTERS))]
    n = 0
    # a fixed case = all words with a given first letter (depth 2, words of length 2) or with given first two letters
    # (depth 3, words of length 3)
    len4 = depth == 3 and ch.draw("enum_len4", 2) == 1
    for second in (rm.LETTERS if depth == 2 else (sec,)):
        for third in (rm.LETTERS if depth == 3 else ("",)):
          for fourth in (rm.LETTERS if len4 else ("",)):
            third_ = third + fourth
            word = first + second + third_
            rm.run_scripted(out, word, depth=depth)
            n += 1
            if out.violations:
                out.violations[0]["message"] = "enumerated history %r at depth %d: %s" % (word, depth, out.violations[0]["message"])
                out.sample = {"enumerated_word": word, "depth": depth}
                return out
    out.stats["enumerated_histories"] += n
    out.sample = {"enumerated_block": (first + "*") if depth == 2 else (first + sec + "*"), "depth": depth, "words": n, "word_length": 2 if depth == 2 else (4 if len4 else 3)}
    out.feed("enum %s%s %d %s" % (first, sec, depth, len4))
    return out


def case(ch):
    out = Outcome()
    if ch.draw("mode", 64) == 63 and ch.draw("enum_confirm", 1000) == 1:     # fixed cases only (forced draws)
        return _enum_case(ch, out)
    rm.run_history(ch, out, min_depth=2, max_depth=10, export_weight=0)
    return out
