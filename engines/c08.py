"""C08 -- Region operations are set algebra on sky pixels, for every history (DESIGN.md 4)."""
from simkit.runner import Outcome
from engines import region_machine as rm

PROPERTY = "C08"
ENGINE = "region_machine"

TIERS = {
    "quick": {"n": 6000, "wall_cap_s": 420, "selftest": 32, "shrink_budget_s": 40},
    "thorough": {"n": 120000, "wall_cap_s": 3000, "selftest": 64, "shrink_budget_s": 90},
}

META = {
    "level": "exploration",
    "rule": ("Each case is a history of 2-12 operations drawn from one seeded decision stream over a pool of <= 4 live Region "
             "objects (depth 2-10): new, add_circles (scalar/vector, poles, RA wrap, depth None/equal/coarser/deeper), "
             "add_poly, add_pixels (+_renorm or alone), union with equal/coarser/finer regions, without, intersect, "
             "symmetric_difference, self-aliasing, depth-mismatch rejections, queries (sky_within scalar/vector/degrees/NaN, "
             "get_demoted, get_area, repr), deepcopy, save/load, MIMAS.combine_regions / intersect_regions on saved files, "
             "and the restart fault (all objects dropped, pool rebuilt from the .mim files).  A per-history random subset of "
             "operations is enabled (swarm).  After every operation every live region is compared, through a deep copy, "
             "with a reference model (set of deepest-level pixel ids).  A history is non-trivial with >= 2 operations; "
             "distinct = new operation-sequence shape (numbers abstracted)."),
    "assumptions": [
        "healpy's nested-index arithmetic and query_disc/query_polygon/ang2pix results are the trusted base (the geometric correctness of those calls is property C09, not this one)",
        "integer-valued float identifiers are not flagged (not observable through any API); fractional or out-of-range ones are",
        "observation uses copy.deepcopy, which preserves the aliasing between the demoted cache and the deepest level",
        "sampling of histories, not proof",
    ],
    "components": {"real": ["AegeanTools.regions.Region (all methods)", "AegeanTools.MIMAS.combine_regions/intersect_regions/save_region/Dummy",
                            "pickle files on a real temp dir", "healpy"],
                   "stub": ["none (the 'restart' fault drops all Python objects and reloads from disk)"]},
}


shrink_hints = rm.shrink_hints


def prepare():
    rm.setup()


def case(ch):
    out = Outcome()
    rm.run_history(ch, out, min_depth=2, max_depth=10, export_weight=0)
    return out
