"""C03 -- every output catalogue is internally consistent and reproducible (DESIGN.md 5).

Decides the history / re-run / fault-isolation clauses by simulation of operation histories with injected fit
faults; evaluates the row invariants on every catalogue any history produces (that part samples inputs)."""
import copy
import os
import traceback

import numpy as np

from simkit.runner import Outcome
from engines import finder_machine as fm

PROPERTY = "C03"
ENGINE = "finder_machine"
DIGEST_MISMATCH_IS_VIOLATION = True
ISOLATE = True      # every case runs in a forked child: it starts from the global state of a fresh process

TIERS = {
    "quick": {"n": 640, "wall_cap_s": 480, "selftest": 16, "shrink_budget_s": 60},
    "thorough": {"n": 12000, "wall_cap_s": 3300, "selftest": 48, "shrink_budget_s": 120},
}

META = {
    "level": "exploration",
    "rule": ("Each case draws a synthetic image (48-120 px, SIN/TAN/ZEA/ARC/STG projection at five reference positions incl. RA wrap, dec -75 and a negative CRVAL1, "
             "0-40 injected Gaussians: scattered, blended groups, barely-detected 'tiny' islands, negative sources, a grid of "
             "> 20 separated sources, NaN patch, noise or nearly noise-free) and a history of finder operations: blind find "
             "(options drawn: island rows, covariance on/off, max_summits, polarity, clip levels), the same operation repeated "
             "on a fresh finder / the same finder / after an unrelated prefix (a galactic-WCS image processed in the same "
             "process), priorized fit (stage 1-3, regroup on/off, shuffled input) and its repetition, and one run with a fault "
             "injected at the k-th fitter call (NaN model, success=False, errorbars=False, singular matrix in the covariance step).  Non-trivial = at least one island "
             "was fitted and at least two operations ran; distinct = new (layout, options, history shape, catalogue size "
             "bucket) tuple.  'evaluations' counts finder operations executed (several per case); distinctness is counted per case."),
    "assumptions": [
        "partial: the history, re-run, fresh-process and fault-isolation clauses are decided by the simulated histories; the row invariants are evaluated on the catalogues those histories produce, i.e. on sampled inputs",
        "noise/background are forced numbers (rms=noise level, bkg=0) or constant map files, so that catalogues do not depend on BANE",
        "rows flagged WCSERR are exempt from the range checks",
        "fit faults are limited to the failure modes the code itself names",
        "fresh-process reproducibility is decided by the runner's self-test: case digests (catalogue rows + tables) recomputed in a fresh interpreter under another PYTHONHASHSEED",
    ],
    "components": {"real": ["AegeanTools.source_finder.SourceFinder (find_sources_in_image, priorized_fit_islands, _fit_island, _refit_islands, result_to_components)",
                            "AegeanTools.fitting, cluster, catalogs.save_catalog, wcs_helpers, models", "lmfit, astropy"],
                   "stub": ["uuid excluded from comparisons", "fitter seam source_finder.do_lmfit wrapped for fault injection/call counting"]},
}


def prepare():
    fm.setup()


def child_cleanup():
    fm._cleanup()


def _where(e):
    tb = traceback.extract_tb(e.__traceback__)
    for f in reversed(tb):
        if "/AegeanTools/" in f.filename:
            return "%s:%d" % (os.path.basename(f.filename), f.lineno)
    return "?"


def _blind(path, spec, o, finder=None):
    sf = fm._state["sf"]
    f = finder or sf.SourceFinder()
    srcs = f.find_sources_in_image(path, cube_index=(1 if spec.get("cube") else None),
                                   cores=1, innerclip=o["innerclip"], **fm.finder_kwargs(spec, path),
                                   outerclip=o["outerclip"], max_summits=o["max_summits"], doislandflux=o["islands"],
                                   nopositive=o["nopositive"], nonegative=o["nonegative"], docov=o["docov"])
    return f, srcs


def _prior(path, spec, cat, p, finder=None):
    sf = fm._state["sf"]
    f = finder or sf.SourceFinder()
    srcs = f.priorized_fit_islands(path, catalogue=copy.deepcopy(cat), cube_index=(1 if spec.get("cube") else None),
                                   cores=1, **fm.finder_kwargs(spec, path),
                                   stage=p["stage"], doregroup=p["regroup"], docov=p["docov"], ratio=p["ratio"])
    return f, srcs


def _try(out, what, fn, *a, **kw):
    try:
        return fn(*a, **kw)
    except Exception as e:      # noqa: BLE001
        out.violation("aborted", "%s raised %s: %s (at %s)" % (what, type(e).__name__, str(e)[:160], _where(e)),
                      sig="%s@%s" % (type(e).__name__, _where(e).split(":")[0]), where=_where(e), op=what)
        return None


def _check_rows(out, what, sources, finder=None, o=None):
    out.stats["oracle:row_invariants"] += 1
    probs = fm.row_invariants(sources)
    if not probs and finder is not None and o is not None and o["islands"]:
        out.stats["oracle:island_vs_pixels"] += 1
        probs = fm.island_vs_pixels(finder, sources, o["innerclip"], o["outerclip"])
    if probs:
        out.violation(probs[0][0], "%s: %s" % (what, probs[0][1]), sig=None, op=what)
        return False
    return True


def _same(out, what, a, b, tag, table_a=None):
    """``table_a``: the tables written for ``a`` at the time ``a`` was produced (before any later history)."""
    out.stats["oracle:rerun_identical"] += 1
    ka, kb = fm.catalogue_key(a), fm.catalogue_key(b)
    if ka != kb:
        n = sum(1 for x, y in zip(ka, kb) if x != y) + abs(len(ka) - len(kb))
        first = next((i for i, (x, y) in enumerate(zip(ka, kb)) if x != y), min(len(ka), len(kb)))
        diff = ""
        if first < min(len(ka), len(kb)):
            diff = "; first differing fields: %s" % [(x, y) for x, y in zip(ka[first], kb[first]) if x != y][:3]
        out.violation("rerun-differs", "%s: %d vs %d rows, %d differ%s" % (what, len(ka), len(kb), n, diff), sig=tag, op=what)
        return False
    ta = table_a if table_a is not None else fm.table_text(a, "a")
    tb = fm.table_text(b, "b")
    if ta != tb:
        la, lb = ta.splitlines(), tb.splitlines()
        first = next((i for i, (x, y) in enumerate(zip(la, lb)) if x != y), 0)
        out.violation("rerun-table-differs", "%s: the tables written by save_catalog differ, e.g. %r vs %r"
                      % (what, la[first][:100] if la else "", lb[first][:100] if lb else ""), sig=tag, op=what)
        return False
    return True


class FreshTwin:
    """A child forked at the very beginning of the case, i.e. with the process-global state of a fresh process (cases
    themselves run in a forked child of a runner that never executes repository code).  It waits for a job, runs
    blind(other image) and then blind(image), and sends back the catalogue key and the tables."""

    _parent_fds = []       # parent-side pipe ends of every live twin: a later twin must not inherit them open

    def __init__(self):
        import pickle
        self.pickle = pickle
        jr, jw = os.pipe()
        rr, rw = os.pipe()
        self.pid = os.fork()
        if self.pid == 0:
            try:
                for fd in FreshTwin._parent_fds:
                    try:
                        os.close(fd)
                    except OSError:
                        pass
                os.close(jw)
                os.close(rr)
                with os.fdopen(jr, "rb") as f:
                    data = f.read()
                if not data:
                    os._exit(0)
                job = pickle.loads(data)
                try:
                    if job[0] == "prior-file":
                        _, path, spec, catfile, p = job
                        _, B = _prior(path, spec, catfile, p)
                    else:
                        gpath, gspec, go, path, spec, o = job
                        _blind(gpath, gspec, go)
                        _, B = _blind(path, spec, o)
                    payload = pickle.dumps(("ok", fm.catalogue_key(B), fm.table_text(B, "c") if B else ""))
                except BaseException as e:      # noqa: BLE001
                    payload = pickle.dumps(("exc", "%s: %s (at %s)" % (type(e).__name__, str(e)[:160], _where(e)), None))
                with os.fdopen(rw, "wb") as f:
                    f.write(payload)
            finally:
                try:
                    if fm._state.get("pid") == os.getpid():
                        fm._cleanup()          # the twin's own scratch directory
                finally:
                    os._exit(0)
        os.close(jr)
        os.close(rw)
        self.jw, self.rr = jw, rr
        FreshTwin._parent_fds += [jw, rr]

    def run(self, *job):
        with os.fdopen(self.jw, "wb") as f:
            f.write(self.pickle.dumps(job))
        self.jw = None
        with os.fdopen(self.rr, "rb") as f:
            data = f.read()
        self.rr = None
        os.waitpid(self.pid, 0)
        self.pid = None
        if not data:
            raise RuntimeError("fresh twin died without reporting")
        return self.pickle.loads(data)

    def discard(self):
        if self.jw is not None:
            os.close(self.jw)
        if self.rr is not None:
            os.close(self.rr)
        if self.pid is not None:
            os.waitpid(self.pid, 0)
            self.pid = None


def case(ch):
    out = Outcome()
    models = fm._state["models"] if "models" in fm._state else None
    if models is None:
        fm.setup()
        models = fm._state["models"]
    spec = fm.gen_image(ch)
    path = fm.write_image(spec, os.path.join(fm.tmpdir(), "img.fits"))
    o = {
        "islands": ch.chance("islands", 1, 3),
        "docov": not ch.chance("nocov", 1, 3),
        "max_summits": (None, None, 1, 2)[ch.draw("max_summits", 4)],
        "innerclip": (5, 5, 6, 10)[ch.draw("innerclip", 4)],
        "outerclip": (4, 4, 3)[ch.draw("outerclip", 3)],
        "nopositive": False, "nonegative": False,
    }
    pol = ch.draw("polarity", 5)
    if pol == 3:
        o["nopositive"] = True
    if pol == 4:
        o["nonegative"] = True
    variant = ("fresh-finder", "same-finder", "after-other-image", "other-image-first-in-fresh-process")[
        ch.weighted("rerun_variant", [2, 2, 3, 3])]
    twin = FreshTwin() if variant == "other-image-first-in-fresh-process" else None
    # priorized fit with the catalogue given as a FILE whose path has been used before in this process
    twin2 = FreshTwin() if ch.chance("prior_from_file", 1, 6) else None
    try:
        return _case_body(ch, out, models, spec, path, o, variant, twin, twin2)
    finally:
        for t in (twin, twin2):
            if t is not None:
                t.discard()


def _prior_from_file(ch, out, models, spec, path, comps, o, twin2, history):
    """The input catalogue of a priorized fit is given as a file.  In a fresh process (twin) the file is loaded once;
    in this process the same path first held ANOTHER catalogue (a subset) that was loaded by an earlier priorized fit.
    Same image, same file content at the time of the call: the results must be identical."""
    catalogs = fm._state["catalogs"]
    base = os.path.join(fm.tmpdir(), "prior_input.csv")
    catfile = os.path.join(fm.tmpdir(), "prior_input_comp.csv")
    p = {"stage": 1 + ch.draw("pf_stage", 3), "regroup": True, "docov": o["docov"], "ratio": None}
    subset = [s for i, s in enumerate(comps) if i % 2 == 0] or list(comps)
    history.append("priorized-from-file(stage=%d, path used before for %d of %d rows)" % (p["stage"], len(subset), len(comps)))
    out.stats["probe:priorized_from_file"] += 1
    catalogs.save_catalog(base, list(subset))
    if _try(out, "priorized fit from a catalogue file (first content of the path)", _prior, path, spec, catfile, p) is None:
        return False
    catalogs.save_catalog(base, list(comps))
    r = _try(out, "priorized fit from a catalogue file (path rewritten)", _prior, path, spec, catfile, p)
    out.stats["runs"] += 3
    if r is None:
        return False
    _, P2 = r
    tag, key1, _table1 = twin2.run("prior-file", path, spec, catfile, p)
    if tag == "exc":
        out.violation("aborted", "priorized fit from a catalogue file in a fresh process raised %s" % key1, sig="fresh-twin", op="priorized")
        return False
    out.stats["oracle:rerun_identical"] += 1
    k2 = fm.catalogue_key(P2)
    if k2 != key1:
        n = sum(1 for x, y in zip(k2, key1) if x != y) + abs(len(k2) - len(key1))
        out.violation("rerun-differs", "priorized fit with the catalogue read from a file: a process that had loaded another "
                      "catalogue from the same path before returns %d rows, a fresh process %d rows, %d differ"
                      % (len(k2), len(key1), n), sig="catalogue-file-path-reused", op="priorized")
        return False
    return True


def _case_body(ch, out, models, spec, path, o, variant, twin, twin2=None):
    history = ["blind"]
    out.sample = {"image": {k: spec[k] for k in ("layout", "rows", "cols", "crval", "proj", "cd_matrix", "beam_ratio", "bpa", "float64", "cube", "beam_param", "aux_files", "psf_map", "offaxis", "pix_arcsec", "beam_pix", "noise")},
                  "nsources_injected": len(spec["sources"]), "options": dict(o), "history": history}

    counter = fm.CallCounter()
    counter.install()
    try:
        r = _try(out, "blind find", _blind, path, spec, o)
    finally:
        counter.remove()
    out.stats["runs"] += 1
    if r is None:
        return out
    finderA, A = r
    ncalls_blind = counter.calls
    comps = [s for s in A if isinstance(s, models.ComponentSource)]
    out.sample["blind_rows"] = len(A)
    out.feed(str(fm.catalogue_key(A)))
    if not _check_rows(out, "blind catalogue", A, finderA, o):
        return out
    tableA = _try(out, "save_catalog of the blind catalogue", fm.table_text, A, "a") if A else ""
    if tableA is None:
        return out
    if spec.get("grid_n", 0) > 20 and len(comps) > 20:
        out.stats["probe:gt20_islands"] += 1
    if any(int(s.flags) & 1 for s in comps):
        out.stats["probe:small_island_flag"] += 1
    if any(len([c for c in comps if c.island == s.island]) > 1 for s in comps):
        out.stats["probe:multi_component_island"] += 1

    # ---- re-run identity (history variants)
    history.append("rerun:" + variant)
    gpath = gspec = go = None
    if variant in ("after-other-image", "other-image-first-in-fresh-process"):
        kind = ("galactic", "same-pixels-other-beam", "other")[ch.draw("prefix_kind", 3)]
        history[-1] += "(%s)" % kind
        if kind == "same-pixels-other-beam":
            gspec = dict(spec, beam_pix=spec["beam_pix"] + (1.0, 0.5, -0.5)[ch.draw("other_beam", 3)])
        else:
            gspec = fm.gen_image(ch, galactic=(kind == "galactic"), small=True)
        gpath = fm.write_image(gspec, os.path.join(fm.tmpdir(), "other.fits"))
        go = dict(o, islands=False)
        out.stats["probe:prefix_" + kind.replace("-", "_")] += 1
    if variant == "other-image-first-in-fresh-process":
        # a fresh process (forked from this one before anything touched the finder's global state would be ideal;
        # this process has only run the operation itself) processes the other image FIRST, then the image
        tag, keyB, tableB = twin.run(gpath, gspec, go, path, spec, o)
        out.stats["runs"] += 2
        if tag == "exc":
            out.violation("aborted", "blind find in a fresh process after another image raised %s" % keyB, sig="fresh-twin", op="blind")
            return out
        out.stats["oracle:rerun_identical"] += 1
        if fm.catalogue_key(A) != keyB:
            ka = fm.catalogue_key(A)
            n = sum(1 for x, y in zip(ka, keyB) if x != y) + abs(len(ka) - len(keyB))
            out.violation("rerun-differs", "blind find in a fresh process that processed another image first (%s): %d vs %d "
                          "rows, %d differ" % (history[-1], len(ka), len(keyB), n), sig=variant, op="blind")
            return out
        if tableA != tableB:
            out.violation("rerun-table-differs", "blind find in a fresh process that processed another image first (%s): "
                          "the tables written by save_catalog differ" % history[-1], sig=variant, op="blind")
            return out
    else:
        if variant == "after-other-image":
            if _try(out, "blind find on an unrelated image", _blind, gpath, gspec, go) is None:
                return out
            out.stats["runs"] += 1
        r = _try(out, "repeated blind find (%s)" % variant, _blind, path, spec, o, finderA if variant == "same-finder" else None)
        out.stats["runs"] += 1
        if r is None:
            return out
        _, A2 = r
        if not _same(out, "blind find repeated (%s)" % history[-1], A, A2, variant, table_a=tableA):
            return out

    if twin2 is not None and comps:
        if not _prior_from_file(ch, out, models, spec, path, comps, o, twin2, history):
            return out

    # ---- priorized fit of the blind catalogue
    P = None
    if comps and ch.chance("do_priorized", 2, 3):
        p = {"stage": 1 + ch.draw("stage", 3), "regroup": not ch.chance("noregroup", 1, 3),
             "docov": o["docov"], "ratio": (None, None, 1.0)[ch.draw("ratio", 3)]}
        cat = list(comps)
        if ch.chance("shuffle", 1, 2):
            rs = np.random.RandomState(ch.draw("shuffle_seed", 1 << 16))
            rs.shuffle(cat)
        reuse = ch.chance("prior_same_finder", 1, 2)
        ppath, pspec = path, spec
        if spec["sources"] and ch.chance("second_epoch", 1, 4):
            # "second epoch": the same sky with a blanked patch over one of the catalogued sources, so that an input
            # island yields no output; a finder that already holds the first image cannot be reused for another image
            sx_, sy_ = spec["sources"][ch.draw("epoch_src", len(spec["sources"]))][:2]
            pspec = dict(spec, nan_patch=(max(0, int(sx_) - 4), max(0, int(sy_) - 4), 9))
            ppath = fm.write_image(pspec, os.path.join(fm.tmpdir(), "epoch2.fits"))
            reuse = False
            out.stats["probe:priorized_second_epoch"] += 1
            history.append("second-epoch-image")
        path_blind, spec_blind = path, spec
        path, spec = ppath, pspec
        history.append("priorized(stage=%d,regroup=%s,%s)" % (p["stage"], p["regroup"], "same finder" if reuse else "fresh finder"))
        out.sample["priorized"] = dict(p)
        counter = fm.CallCounter()
        counter.install()
        try:
            r = _try(out, "priorized fit", _prior, path, spec, cat, p, finderA if reuse else None)
        finally:
            counter.remove()
        out.stats["runs"] += 1
        if r is None:
            return out
        finderP, P = r
        ncalls_prior = counter.calls
        out.feed(str(fm.catalogue_key(P)))
        out.sample["priorized_rows"] = len(P)
        if not _check_rows(out, "priorized catalogue", P):
            return out
        ngroups = len(set(s.island for s in P))
        if ngroups > 20:
            out.stats["probe:priorized_gt20_groups"] += 1
        r = _try(out, "repeated priorized fit", _prior, path, spec, cat, p)
        out.stats["runs"] += 1
        if r is None:
            return out
        history.append("rerun:priorized")
        if not _same(out, "priorized fit repeated", P, r[1], "priorized"):
            return out

    # ---- one injected fit fault
    if ch.chance("do_fault", 1, 2):
        target = "priorized" if (P is not None and ch.chance("fault_in_priorized", 1, 2)) else "blind"
        if P is not None and target == "blind":
            path, spec = path_blind, spec_blind
        ncalls = ncalls_prior if target == "priorized" else ncalls_blind
        if ncalls > 0:
            k = ch.draw("fault_call", ncalls)
            kind = ("nan", "nosuccess", "noerrorbars", "singular")[ch.draw("fault_kind", 4)]
            history.append("fault:%s@%s#%d" % (kind, target, k))
            fault = fm.FitFault(k, kind)
            fault.install()
            try:
                if target == "blind":
                    r = _try(out, "blind find with fit fault '%s' in fitter call %d" % (kind, k), _blind, path, spec, o)
                else:
                    r = _try(out, "priorized fit with fit fault '%s' in fitter call %d" % (kind, k), _prior, path, spec, cat, p)
            finally:
                fault.remove()
            out.stats["runs"] += 1
            if fault.fired:
                out.stats["fault:fit-" + kind] += 1
            if r is None:
                v = out.violations[-1]
                v["kind"] = "fault-aborts"
                v["detail"]["sig"] = "%s/%s/%s" % (target, kind, v["detail"]["sig"])
                v["detail"]["fault_kind"] = kind
                v["detail"]["target"] = target
                return out
            F = r[1]
            ref = P if target == "priorized" else A
            out.stats["oracle:fault_isolation"] += 1
            if not _check_rows(out, "catalogue of the run with a fit fault", F):
                return out
            prob = _isolation(ref, F, models)
            if prob:
                out.violation("fault-spreads", "fit fault '%s' in %s fitter call %d: %s" % (kind, target, k, prob),
                              sig="%s/%s" % (target, kind), fault_kind=kind, target=target)
                return out
    n_isl = len(set(s.island for s in comps))
    if comps and len(history) >= 2:
        out.fps.add("%s|%s|%s|%d" % (spec["layout"], sorted((k, str(v)) for k, v in o.items()),
                                     [h.split("#")[0] for h in history], min(n_isl, 40) // 4))
    out.feed("|".join(history))
    return out


_real_case = case


def case(ch):       # noqa: F811 - wrapper that attaches the history as the trace of a violation
    out = _real_case(ch)
    if out.violations and out.sample:
        out.trace = {"history": out.sample.get("history")}
    return out


def _isolation(ref, got, models):
    """Rows of islands other than the faulted one must be identical to the fault-free run."""
    def by_island(rows):
        d = {}
        for s in rows:
            d.setdefault(s.island, []).append(s)
        return d
    a, b = by_island(ref), by_island(got)
    differing = []
    for isl in sorted(set(a) | set(b)):
        ka = fm.catalogue_key(a.get(isl, []))
        kb = fm.catalogue_key(b.get(isl, []))
        if ka != kb:
            differing.append(isl)
    if len(differing) > 1:
        return "rows of %d islands differ from the fault-free run (islands %s)" % (len(differing), differing[:5])
    # the rows of the faulted island itself only have to satisfy the row invariants (checked by the caller):
    # the property asks for "flagging rather than aborting", it does not prescribe which flag a degraded fit carries
    return None
