"""C07 -- BANE always terminates, is schedule-independent and fails cleanly (DESIGN.md 3.3)."""
import os

import numpy as np

from simkit.runner import Outcome
from engines import bane_world as bw

PROPERTY = "C07"
ENGINE = "bane_world"

TIERS = {
    "quick": {"n": 1600, "wall_cap_s": 420, "selftest": 24, "shrink_budget_s": 40},
    "thorough": {"n": 40000, "wall_cap_s": 3000, "selftest": 64, "shrink_budget_s": 90},
}

META = {
    "level": "exploration",
    "fp_is_schedule": True,
    "rule": ("Each case draws (from one seeded decision stream) an image file, a BANE configuration "
             "(rows 1-160, cols 1-64, grid, box, cores 1-16, stripes None/1..2*cores, mask, NAXIS 2-4, BITPIX) "
             "and then runs the real filter_image several times inside the simulator: a canonical round-robin "
             "schedule, 1-3 variant runs (random virtual delays at every yield point, another worker count "
             "for the same stripe layout, pre-filled/zeroed shared memory, stalled tasks), sometimes another "
             "stripe layout, and sometimes one run with a worker failure (exception at a drawn yield point or "
             "source line, or process death) or with a failure of the parent's own set-up (a shared-memory segment "
             "cannot be created, the pool's workers cannot be started).  A run (= one evaluation) is non-trivial when the parent and at least two worker tasks were interleaved; it is "
             "distinct when the hash of its (task, yield-ordinal) context-switch sequence together with its "
             "configuration has not been seen before in this batch."),
    "assumptions": [
        "the Pool / Condition / shared-memory-name-space models of simkit/mp.py represent CPython 3.12 multiprocessing (written from its source)",
        "processes are modelled as threads of one interpreter: module globals set by the pool initializer are shared, which is faithful as long as every worker receives the same initargs",
        "the code under test does not read a shared segment before anything wrote to it (segments are pre-filled with a NaN payload pattern in most runs to detect unwritten pixels)",
        "numpy/scipy are deterministic for identical inputs with single-threaded BLAS",
        "sampling, not proof: a clean batch is evidence over the seeds explored",
    ],
    "components": {
        "real": ["AegeanTools.BANE.filter_image/filter_mc_sharemem/init/_sf2/sigma_filter/sigmaclip",
                 "astropy.io.fits on real files", "numpy/scipy", "CPython threading.Barrier state machine",
                 "CPython multiprocessing.shared_memory.SharedMemory class"],
        "stub": ["multiprocessing context/Pool/worker processes (kernel tasks)", "condition variable under the barrier",
                 "POSIX shm name space (sandbox directory)", "uuid4", "scheduler and clock (virtual)"],
    },
}

SIGMA_FRACTION = 0.3     # bound for the stripe-count oracle, in units of the local noise (largest value observed over 10 000 cases on the repaired tree: 0.12)


shrink_hints = bw.shrink_hints
ISOLATE = True          # every case in a forked child: consecutive runs of a case share process state, cases do not


def child_cleanup():
    bw.cleanup()


def prepare():
    bw.setup()


def _count(out, res, faulted=False):
    out.stats["runs"] += 1
    out.stats["kernel_steps"] += res.steps
    out.stats["switches"] += res.switches
    out.sim_time += res.end_time if res.end_time < 1e6 else 0.0
    for f in res.fired:
        out.stats["fault:" + f["kind"]] += 1
        if f.get("at") == "block":
            out.stats["probe:worker_killed_while_blocked"] += 1
    if res.ntasks >= 3:
        out.fps.add(res.sched_fp + ":" + res.cfg_key)
    for b in res.barrier_stats:
        if b["reset_with_waiter"]:
            out.stats["probe:barrier_reset_with_waiter"] += 1
        if b["abort"]:
            out.stats["probe:barrier_abort"] += 1
    if res.layout and res.pool_sizes and len(res.layout) > res.pool_sizes[0]:
        out.stats["probe:stripes_gt_pool"] += 1
    if res.layout and any(b - a == 1 for a, b in res.layout if isinstance(a, int)):
        out.stats["probe:stripe_height_1"] += 1
    if any(r for r in res.rescues):
        out.stats["probe:timer_rescue"] += 1
    if res.ntasks - 1 > (res.pool_sizes[0] if res.pool_sizes else 0):
        out.stats["probe:worker_respawned"] += 1
    out.feed(res.digest)


def _basic(out, res, cfg, what, fault_free=True):
    """Liveness, leak and (for fault-free runs) completion oracles.  True if clean."""
    probs = bw.liveness_problems(res) + bw.leak_problems(res)
    out.stats["oracle:terminates"] += 1
    out.stats["oracle:no_shm_left"] += 1
    if fault_free:
        probs += bw.completion_problems(res, cfg)
        out.stats["oracle:complete_output"] += 1
    if not res.used_sim and res.status == "returned":
        # the code never asked for a pool/barrier: nothing was simulated (single-process implementation)
        out.stats["probe:no_pool_used"] += 1
    for kind, msg in probs[:1]:
        out.violation(kind, "%s: %s" % (what, msg), sig=None, run=what, cfg=_cfg_str(cfg), layout=str(res.layout),
                      sched=res.sched_name)
        out.trace = _trace(res)
    return not probs


def _trace(res):
    """Kernel event log of a run: 'step virtual-time kind task what' (y = yield point, b = blocks, w = woken,
    fault, timer, deadlock, end)."""
    return {"events": res.log, "events_total": res.kernel.nlog, "faults_fired": res.fired,
            "blocked_at_end": res.blocked_at_end, "rescues": res.rescues}


def _cfg_str(cfg):
    return "rows=%d cols=%d grid=%s box=%s cores=%s stripes=%s mask=%s naxis=%d bitpix=%d bscale=%s bzero=%s" % (
        cfg["rows"], cfg["cols"], cfg["grid"], cfg["box"], cfg["cores"], cfg["nslice"], cfg["mask"], cfg["naxis"],
        cfg["bitpix"], cfg.get("bscale"), cfg.get("bzero"))


def _run(fn, cfg, sched, ch, **kw):
    res = bw.run_bane(fn, cfg, sched, ch, **kw)
    res.sched_name = sched["profile"]
    c = dict(cfg)
    if kw.get("cores_override") is not None:
        c["cores"] = kw["cores_override"]
    res.cfg_key = "%d.%d.%s.%s.%s/%s.%s" % (c["rows"], c["cols"], c["grid"][0], c["box"][0], c["cores"], c.get("ncpu"), c["nslice"])
    return res


def _same_bits(a, b):
    return (isinstance(a, np.ndarray) and isinstance(b, np.ndarray) and a.shape == b.shape
            and a.dtype == b.dtype and a.tobytes() == b.tobytes())


# ---- enumerated single-fault placements on fixed layouts ------------------------------------------------------
ENUM_CFGS = (
    dict(rows=24, cols=8, grid=(4, 4), box=(8, 8), cores=2, nslice=2, mask=True),
    dict(rows=36, cols=8, grid=(4, 4), box=(8, 8), cores=3, nslice=3, mask=True),
    dict(rows=24, cols=8, grid=(4, 4), box=(8, 8), cores=4, nslice=2, mask=False),
    dict(rows=33, cols=6, grid=(4, 2), box=(8, 4), cores=3, nslice=None, mask=True),
)


def fixed_cases(tier="quick"):
    """One fixed case per (layout, granularity): inside it *every* placement of one worker exception is tried.
    Thorough adds granularity 2 (every sigmaclip call is a yield point as well) and, for the four-stripe layout, all 576
    pairs of arrival orders (24 cases of 24 pairs) instead of 60 drawn pairs."""
    extra = []
    if tier == "thorough":
        extra = ([{"mode": 63, "enum_confirm": 1, "enum_cfg": c, "enum_gran": 2} for c in range(len(ENUM_CFGS))] +
                 [{"mode": 62, "enum_confirm": 1, "order_cfg": 3, "order_all_first": 1 + i} for i in range(24)])
    return (extra + [{"mode": 63, "enum_confirm": 1, "enum_cfg": c, "enum_gran": g} for c in range(len(ENUM_CFGS)) for g in (0, 1)] +
            [{"mode": 62, "enum_confirm": 1, "order_cfg": c} for c in range(len(ORDER_CFGS))] +
            [{"mode": 61, "enum_confirm": 1, "layout_cfg": c} for c in range(len(LAYOUT_CFGS))] +
            [{"mode": 60, "enum_confirm": 1, "blank_cfg": c} for c in range(len(BLANK_STRIPE_CFGS))])


def _enum_case(ch, out):
    """Fault enumeration: for a fixed layout, one worker exception at every eligible yield point (granularity 0:
    the synchronisation / I/O / compute seams) or at the first execution of every source line (granularity 1) of
    every stripe, under the canonical schedule.  Each placement must make the call raise promptly, leak nothing."""
    ci = ch.draw("enum_cfg", len(ENUM_CFGS))
    gran = ch.draw("enum_gran", 3)
    cfg = dict(ENUM_CFGS[ci], naxis=2, nplanes=1, cube_index=0, bitpix=-64, bscale=None)
    content = dict(seed=7, kind="noise", offset_pow=3, offset_neg=False, sigma_pow=0, blank="pixels", blank_inf=False, blank_seed=3)
    img = bw.make_image(cfg, content)
    fn = bw.write_image(bw.fresh_path("c07e"), cfg, img)
    hot, line = ((0, 0), (0, 1), (1, 0))[gran]
    sched = bw.canonical_sched(hot, line)
    out.sample = {"enumeration": {"config": _cfg_str(cfg), "granularity": ("seam yield points", "source lines", "seam yield points + every sigmaclip call")[gran]},
                  "placements": 0}
    r0 = _run(fn, cfg, sched, ch, fill="payload")
    _count(out, r0)
    if not _basic(out, r0, cfg, "canonical schedule (enumeration reference)"):
        return out
    placements = []
    for tname in sorted(n for n in r0.worker_yields if n != "main"):
        if gran in (0, 2):
            placements += [(tname, "yield", k) for k in range(r0.worker_yields[tname])]
        else:
            placements += [(tname, "line", o) for (o, _fn, _ln, nested) in r0.first_lines.get(tname, ()) if nested]
    for (tname, at, k) in placements:
        plan = bw.FaultPlan([dict(kind="exc", task=tname, at=at, k=k, arg=k)])
        rf = _run(fn, cfg, sched, ch, faults=plan, fill="payload")
        _count(out, rf)
        if not plan.fired:
            out.stats["fault_unfired"] += 1
            continue
        out.stats["oracle:fails_cleanly"] += 1
        out.stats["enumerated_fault_placements"] += 1
        out.sample["placements"] += 1
        site = plan.fired[0]["site"]
        probs = bw.liveness_problems(rf)
        if probs:
            out.violation("fault-hang", "enumeration %s: worker %s raised at %s (%s #%d): the call does not raise promptly: %s"
                          % (_cfg_str(cfg), tname, site, at, k, probs[0][1]), sig="exc", fault_kind="exc", site=site,
                          cfg=_cfg_str(cfg), layout=str(rf.layout), sched="canonical")
            out.trace = _trace(rf)
            return out
        if rf.status == "returned":
            out.violation("fault-swallowed", "enumeration %s: worker %s raised at %s (%s #%d) but the call returned normally"
                          % (_cfg_str(cfg), tname, site, at, k), sig="exc", fault_kind="exc", site=site, cfg=_cfg_str(cfg))
            return out
        lk = bw.leak_problems(rf)
        if lk:
            out.violation("shm-leak", "enumeration: after worker %s raised at %s: %s" % (tname, site, lk[0][1]),
                          sig="fault", fault_kind="exc", site=site, cfg=_cfg_str(cfg))
            return out
    if gran == 0:
        # the parent's own set-up fails: first / second segment cannot be created, the workers cannot be started
        for what in (("shm", 0), ("shm", 1), ("pool",)):
            rf = _run(fn, cfg, sched, ch, setup_fault=what, fill="payload")
            _count(out, rf)
            fired = [x for x in rf.fired if x["kind"] == "setup"]
            if not fired:
                out.stats["fault_unfired"] += 1
                continue
            out.stats["oracle:fails_cleanly"] += 1
            out.stats["enumerated_fault_placements"] += 1
            out.sample["placements"] += 1
            site = fired[0]["site"]
            probs = bw.liveness_problems(rf)
            if probs:
                out.violation("fault-hang", "enumeration %s: set-up failure at %s: the call does not raise promptly: %s"
                              % (_cfg_str(cfg), site, probs[0][1]), sig="setup", fault_kind="setup", site=site,
                              cfg=_cfg_str(cfg), layout=str(rf.layout), sched="canonical")
                out.trace = _trace(rf)
                return out
            if rf.status == "returned":
                out.violation("fault-swallowed", "enumeration %s: set-up failure at %s but the call returned normally"
                              % (_cfg_str(cfg), site), sig="setup", fault_kind="setup", site=site, cfg=_cfg_str(cfg))
                return out
            lk = bw.leak_problems(rf)
            if lk:
                out.violation("shm-leak", "enumeration: after a set-up failure (%s): %s" % (site, lk[0][1]),
                              sig="setup", fault_kind="setup", site=site, cfg=_cfg_str(cfg))
                return out
    return out


# ---- enumerated arrival orders at the synchronisation points ---------------------------------------------------------
ORDER_CFGS = (
    dict(rows=36, cols=8, grid=(4, 4), box=(12, 8), cores=3, nslice=3, mask=True),      # 3 stripes, two barriers
    dict(rows=24, cols=8, grid=(4, 4), box=(12, 8), cores=2, nslice=2, mask=True),      # 2 stripes, two barriers
    dict(rows=36, cols=8, grid=(4, 4), box=(12, 8), cores=4, nslice=3, mask=False),     # 3 stripes, one barrier, spare worker
    dict(rows=48, cols=6, grid=(4, 2), box=(16, 4), cores=4, nslice=4, mask=True),      # 4 stripes (sampled orders)
)


def _order_case(ch, out):
    """For a fixed layout: every order in which the stripes can reach barrier 1 and barrier 2 (all pairs of
    permutations for <= 3 stripes, 60 drawn pairs for 4), plus every (stripe, barrier) choice of a stripe that is held
    for 5000 s on the first source line after it leaves that barrier.  Every run must terminate, write everything,
    leak nothing and give maps bit-identical to the canonical schedule's."""
    import itertools
    ci = ch.draw("order_cfg", len(ORDER_CFGS))
    cfg = dict(ORDER_CFGS[ci], naxis=2, nplanes=1, cube_index=0, bitpix=-32, bscale=None)
    content = dict(seed=11, kind="gradient", offset_pow=7, offset_neg=False, sigma_pow=0, blank="block", blank_inf=False, blank_seed=5)
    img = bw.make_image(cfg, content)
    fn = bw.write_image(bw.fresh_path("c07o"), cfg, img)
    out.sample = {"order_enumeration": _cfg_str(cfg), "schedules": 0}
    try:
        r0 = _run(fn, cfg, bw.canonical_sched(0, 1), ch, fill="payload")
        _count(out, r0)
        if not _basic(out, r0, cfg, "canonical schedule (order enumeration reference)"):
            return out
        n = len(r0.layout)
        nphase = 2 if cfg["mask"] else 1
        perms = list(itertools.permutations(range(n)))
        first_fixed = ch.draw("order_all_first", 25)
        if n <= 3:
            combos = list(itertools.product(perms, repeat=nphase))
        elif first_fixed:
            # thorough: this case takes one order at barrier 1 and every order at barrier 2
            combos = [(perms[(first_fixed - 1) % len(perms)], p2) for p2 in perms] if nphase == 2 else [(perms[(first_fixed - 1) % len(perms)],)]
        else:
            combos = [tuple(perms[ch.draw("perm", len(perms))] for _ in range(nphase)) for _ in range(60)]
        scheds = [dict(perms=[list(p) for p in c], stall=None) for c in combos]
        ident = [list(range(n))] * nphase
        for w in range(n):
            for ph in range(1, nphase + 1):
                scheds.append(dict(perms=ident, stall=(w, ph)))
                scheds.append(dict(perms=[list(reversed(range(n)))] * nphase, stall=(w, ph)))
        for o in scheds:
            sched = {"profile": "ordered", "hot_stride": 0, "line_mode": 1, "order": o}
            rv = _run(fn, cfg, sched, ch, fill="payload")
            _count(out, rv)
            out.stats["enumerated_arrival_orders"] += 1
            out.sample["schedules"] += 1
            what = "arrival orders %s%s" % (o["perms"], "" if o["stall"] is None else
                                            ", stripe %d held after barrier %d" % tuple(o["stall"]))
            if not _basic(out, rv, cfg, what):
                return out
            out.stats["oracle:bit_identical_per_layout"] += 1
            if not (_same_bits(rv.bkg, r0.bkg) and _same_bits(rv.rms, r0.rms)):
                nb = int(np.count_nonzero(rv.bkg.view(np.uint32) != r0.bkg.view(np.uint32)))
                nr = int(np.count_nonzero(rv.rms.view(np.uint32) != r0.rms.view(np.uint32)))
                out.violation("schedule-dependent", "%s, layout %s, %s: %d bkg and %d rms pixels differ from the canonical schedule's maps"
                              % (_cfg_str(cfg), r0.layout, what, nb, nr), sig=None, cfg=_cfg_str(cfg), layout=str(r0.layout))
                out.trace = _trace(rv)
                return out
    finally:
        bw.remove_quietly(fn)
    return out


# ---- stripe-count robustness on fixed images -----------------------------------------------------------------------
LAYOUT_CFGS = (
    dict(rows=96, cols=32, grid=(8, 8), box=(32, 32), seed=3, kind="noise", offset_pow=10),
    dict(rows=120, cols=40, grid=(4, 4), box=(24, 24), seed=5, kind="gradient", offset_pow=13),
    dict(rows=80, cols=48, grid=(8, 4), box=(40, 20), seed=9, kind="noise", offset_pow=7),
    dict(rows=128, cols=24, grid=(8, 8), box=(64, 16), seed=13, kind="gradient", offset_pow=3, slope_pow=-1),   # tall box, steep gradient
    dict(rows=64, cols=96, grid=(8, 8), box=(16, 64), seed=17, kind="gradient", offset_pow=3, slope_pow=-1),    # wide box
)


def _layout_case(ch, out):
    """For a fixed noise image with a large DC offset: 1, 2, 3, 4, 5 and 6 stripes (6 workers).  Every layout must
    terminate with complete maps, and the maps of any two layouts may differ by at most SIGMA_FRACTION x the noise."""
    c = LAYOUT_CFGS[ch.draw("layout_cfg", len(LAYOUT_CFGS))]
    cfg = dict(rows=c["rows"], cols=c["cols"], grid=c["grid"], box=c["box"], cores=6, nslice=1, mask=True,
               naxis=2, nplanes=1, cube_index=0, bitpix=-32, bscale=None)
    content = dict(seed=c["seed"], kind=c["kind"], offset_pow=c["offset_pow"], offset_neg=False, sigma_pow=0,
                   blank="none", blank_inf=False, blank_seed=0, slope_pow=c.get("slope_pow", -6))
    img = bw.make_image(cfg, content)
    fn = bw.write_image(bw.fresh_path("c07l"), cfg, img)
    out.sample = {"layout_comparison": _cfg_str(cfg), "layouts": []}
    try:
        maps = []
        for ns in (1, 2, 3, 4, 5, 6):
            cfg_n = dict(cfg, nslice=ns)
            r = _run(fn, cfg_n, bw.canonical_sched(0, 0), ch, fill="payload")
            _count(out, r)
            if not _basic(out, r, cfg_n, "fixed image, %d stripes requested" % ns):
                return out
            maps.append((r.layout, r.bkg.astype(np.float64), r.rms.astype(np.float64)))
            out.sample["layouts"].append(str(r.layout))
        for i in range(len(maps)):
            for j in range(i + 1, len(maps)):
                if maps[i][0] == maps[j][0]:
                    continue
                out.stats["oracle:stripe_count_robust"] += 1
                db = float(np.nanmax(np.abs(maps[i][1] - maps[j][1])))
                dr = float(np.nanmax(np.abs(maps[i][2] - maps[j][2])))
                out.maximum("layout_delta_in_sigma(threshold %.2f)" % SIGMA_FRACTION, max(db, dr))
                if not (db <= SIGMA_FRACTION and dr <= SIGMA_FRACTION):
                    out.violation("stripe-sensitivity", "fixed image %s (noise rms 1, offset 2^%d): layouts %s and %s give maps "
                                  "that differ by %.3g (bkg) and %.3g (rms) x the local noise"
                                  % (_cfg_str(cfg), c["offset_pow"], maps[i][0], maps[j][0], db, dr), sig=None, cfg=_cfg_str(cfg))
                    return out
    finally:
        bw.remove_quietly(fn)
    return out


# ---- whole stripes without a single finite pixel --------------------------------------------------------------------
BLANK_STRIPE_CFGS = (
    dict(rows=48, cols=8, grid=(4, 4), box=(8, 8), cores=3, nslice=3, band=(0, 22)),      # first stripe and its halo blank
    dict(rows=48, cols=8, grid=(4, 4), box=(8, 8), cores=3, nslice=3, band=(26, 48)),     # last stripe blank
    dict(rows=64, cols=6, grid=(4, 2), box=(8, 4), cores=4, nslice=4, band=(12, 40)),     # the two middle stripes blank
    dict(rows=32, cols=8, grid=(4, 4), box=(8, 8), cores=2, nslice=2, band=(0, 32)),      # everything blank
)


def _blank_stripe_case(ch, out):
    """Images in which one or more whole stripes (halo included) hold no finite pixel, with masking on and off: the call
    must terminate with complete maps under the canonical and two random schedules, bit-identically."""
    c = BLANK_STRIPE_CFGS[ch.draw("blank_cfg", len(BLANK_STRIPE_CFGS))]
    for mask in (True, False):
        cfg = dict(rows=c["rows"], cols=c["cols"], grid=c["grid"], box=c["box"], cores=c["cores"], nslice=c["nslice"],
                   mask=mask, naxis=2, nplanes=1, cube_index=0, bitpix=-32, bscale=None)
        content = dict(seed=21, kind="noise", offset_pow=5, offset_neg=False, sigma_pow=0, blank="band", blank_inf=False,
                       blank_seed=0, band_rows=c["band"])
        img = bw.make_image(cfg, content)
        fn = bw.write_image(bw.fresh_path("c07b"), cfg, img)
        out.sample = {"blank_stripes": _cfg_str(cfg), "blank_rows": c["band"]}
        try:
            r0 = _run(fn, cfg, bw.canonical_sched(0, 0), ch, fill="payload")
            _count(out, r0)
            if not _basic(out, r0, cfg, "image with blank rows %s, canonical schedule" % (c["band"],)):
                return out
            for _ in range(2):
                sched = bw.gen_sched(ch, 0, 0)
                rv = _run(fn, cfg, sched, ch, fill="zeros" if ch.chance("fill_zero", 1, 2) else "payload")
                _count(out, rv)
                if not _basic(out, rv, cfg, "image with blank rows %s, %s schedule" % (c["band"], sched["profile"])):
                    return out
                out.stats["oracle:bit_identical_per_layout"] += 1
                if not (_same_bits(rv.bkg, r0.bkg) and _same_bits(rv.rms, r0.rms)):
                    out.violation("schedule-dependent", "image with blank rows %s (%s): maps differ between the canonical and a %s "
                                  "schedule" % (c["band"], _cfg_str(cfg), sched["profile"]), sig=None, cfg=_cfg_str(cfg), layout=str(r0.layout))
                    out.trace = _trace(rv)
                    return out
            out.stats["blank_stripe_runs"] += 3
        finally:
            bw.remove_quietly(fn)
    return out


def case(ch):
    out = Outcome()
    # the enumerations are the *fixed* cases of every batch (forced draws); a random case runs one only with
    # probability 1/32000, otherwise it is an ordinary random case
    mode = ch.draw("mode", 64)
    if mode >= 60 and ch.draw("enum_confirm", 1000) == 1:
        return (_enum_case, _order_case, _layout_case, _blank_stripe_case)[63 - mode](ch, out)
    cfg = bw.gen_config(ch)
    content = bw.gen_content(ch, cfg)
    hot, line = bw.gen_yield_settings(ch)
    nvar = 1 + ch.draw("nvariants", 3)
    fault_kind = ("none", "exc", "kill", "setup")[ch.weighted("fault_kind", [5, 5, 1, 1])]
    other_layout = ch.chance("other_layout", 1, 3)
    img = bw.make_image(cfg, content)
    fn = bw.write_image(bw.fresh_path("c07"), cfg, img)
    try:
        return _case_body(ch, out, cfg, content, hot, line, nvar, fault_kind, other_layout, fn)
    finally:
        bw.remove_quietly(fn)


def _case_body(ch, out, cfg, content, hot, line, nvar, fault_kind, other_layout, fn):
    out.sample = {"config": _cfg_str(cfg), "content": content["kind"], "blank": content["blank"],
                  "yield": {"hot_stride": hot, "line_mode": line}, "variants": nvar, "fault": fault_kind,
                  "other_layout": bool(other_layout), "runs": []}

    # ---- R0: canonical round-robin schedule, pre-filled segments
    r0 = _run(fn, cfg, bw.canonical_sched(hot, line), ch, fill="payload")
    _count(out, r0)
    out.sample["runs"].append({"run": "canonical", "status": r0.status, "layout": r0.layout, "steps": r0.steps})
    if not _basic(out, r0, cfg, "canonical schedule"):
        return out
    nstripes = len(r0.layout) if r0.layout else 1

    # ---- a failure of the parent's set-up (a segment cannot be created, the workers cannot be started): the call must
    #      raise, promptly, and leave no segment behind
    if fault_kind == "setup":
        what = (("shm", 0), ("shm", 1), ("pool",), ("pool",))[ch.draw("setup_fault", 4)]
        sched = bw.canonical_sched(hot, line) if ch.chance("fault_canonical", 1, 3) else bw.gen_sched(ch, hot, line)
        rf = _run(fn, cfg, sched, ch, setup_fault=what, fill="payload")
        _count(out, rf)
        fired = [x for x in rf.fired if x["kind"] == "setup"]
        out.sample["runs"].append({"run": "fault", "kind": "setup", "what": list(what),
                                   "fired": [x["site"] for x in fired], "status": rf.status,
                                   "exc": type(rf.exc).__name__ if rf.exc is not None else None})
        if not fired:
            out.stats["fault_unfired"] += 1
            if not _basic(out, rf, cfg, "run with an armed but unreached set-up fault"):
                return out
        else:
            out.stats["oracle:fails_cleanly"] += 1
            site = fired[0]["site"]
            probs = bw.liveness_problems(rf)
            if probs:
                out.violation("fault-hang", "set-up failure at %s: the call does not raise promptly: %s" % (site, probs[0][1]),
                              sig="setup", fault_kind="setup", site=site, cfg=_cfg_str(cfg), layout=str(rf.layout),
                              sched=sched["profile"])
                out.trace = _trace(rf)
                return out
            if rf.status == "returned":
                out.violation("fault-swallowed", "set-up failure at %s but the call returned normally" % site,
                              sig="setup", fault_kind="setup", site=site, cfg=_cfg_str(cfg))
                return out
            lk = bw.leak_problems(rf)
            if lk:
                out.violation("shm-leak", "after a set-up failure (%s): %s" % (site, lk[0][1]),
                              sig="setup", fault_kind="setup", site=site, cfg=_cfg_str(cfg))
                return out
    # ---- one worker failure
    elif fault_kind != "none":
        holders = sorted(n for n, c in r0.worker_yields.items() if n != "main" and c > 0)
        if holders:
            tname = holders[ch.draw("fault_task", len(holders))]
            use_line = bool(line) and ch.chance("fault_at_line", 1, 2) and r0.worker_lines.get(tname, 0) > 0
            use_block = (fault_kind == "kill" and r0.worker_blocks.get(tname, 0) > 0 and ch.chance("kill_while_blocked", 1, 3))
            if use_block:
                k = ch.draw("fault_block", r0.worker_blocks[tname])
                f = dict(kind="kill", task=tname, at="block", k=k, arg=0)
            elif use_line:
                k = ch.draw("fault_line", r0.worker_lines[tname])
                f = dict(kind=fault_kind, task=tname, at="line", k=k, arg=ch.draw("exc_type", 5))
            else:
                k = ch.draw("fault_yield", r0.worker_yields[tname])
                f = dict(kind=fault_kind, task=tname, at="yield", k=k, arg=ch.draw("exc_type", 5))
            sched = bw.canonical_sched(hot, line) if ch.chance("fault_canonical", 1, 3) else bw.gen_sched(ch, hot, line)
            plan = bw.FaultPlan([f])
            rf = _run(fn, cfg, sched, ch, faults=plan, fill="payload")
            _count(out, rf)
            fired = [x for x in plan.fired if x["kind"] == fault_kind]
            out.sample["runs"].append({"run": "fault", "kind": fault_kind, "task": tname, "at": f["at"], "k": k,
                                       "fired": [x["site"] for x in fired], "status": rf.status,
                                       "exc": type(rf.exc).__name__ if rf.exc is not None else None})
            if not fired:
                out.stats["fault_unfired"] += 1
                if not _basic(out, rf, cfg, "run with an armed but unreached fault"):
                    return out
            else:
                out.stats["oracle:fails_cleanly"] += 1
                site = fired[0]["site"]
                probs = bw.liveness_problems(rf)
                if probs:
                    out.violation("fault-hang",
                                  "worker %s %s at %s: the call does not raise promptly: %s"
                                  % (tname, "raised an exception" if fault_kind == "exc" else "died", site, probs[0][1]),
                                  sig=fault_kind, fault_kind=fault_kind, site=site, cfg=_cfg_str(cfg),
                                  layout=str(rf.layout), sched=sched["profile"])
                    out.trace = _trace(rf)
                    return out
                if rf.status == "returned":
                    out.violation("fault-swallowed",
                                  "worker %s %s at %s but the call returned normally"
                                  % (tname, "raised an exception" if fault_kind == "exc" else "died", site),
                                  sig=fault_kind, fault_kind=fault_kind, site=site, cfg=_cfg_str(cfg))
                    return out
                lk = bw.leak_problems(rf)
                if lk:
                    out.violation("shm-leak", "after a worker failure (%s at %s): %s" % (fault_kind, site, lk[0][1]),
                                  sig="fault", fault_kind=fault_kind, site=site, cfg=_cfg_str(cfg))
                    return out
    # ---- variants: same input, same layout, other schedule / worker count / fill / stalls
    for i in range(nvar):
        sched = bw.gen_sched(ch, hot, line)
        cores2 = None
        if cfg["nslice"] is not None and cfg["cores"] is not None and cfg["cores"] > 1 and ch.chance("vary_cores", 1, 2):
            cores2 = max(2, nstripes) + ch.draw("cores2", 5)
        fill = "zeros" if ch.chance("fill_zero", 1, 4) else "payload"
        plan = None
        if ch.chance("stall", 1, 3):
            nworkers = max(1, min(nstripes, 16))
            tgt = ch.draw("stall_task", nworkers + 1)
            tname = "main" if tgt == nworkers else "w%d" % tgt
            ny = r0.worker_yields.get(tname, 0)
            if ny:
                plan = bw.FaultPlan([dict(kind="stall", task=tname, at="yield", k=ch.draw("stall_k", ny),
                                          arg=ch.draw("stall_len", 3))])
        rv = _run(fn, cfg, sched, ch, faults=plan, fill=fill, cores_override=cores2)
        _count(out, rv)
        out.sample["runs"].append({"run": "variant", "sched": sched["profile"], "cores": cores2 or cfg["cores"],
                                   "fill": fill, "stall": bool(plan and plan.fired), "status": rv.status,
                                   "layout": rv.layout, "steps": rv.steps})
        if not _basic(out, rv, cfg, "variant run (%s schedule%s%s)" % (
                sched["profile"], ", cores=%d" % cores2 if cores2 else "", ", stalled task" if plan and plan.fired else "")):
            return out
        if rv.layout == r0.layout:
            out.stats["oracle:bit_identical_per_layout"] += 1
            if not (_same_bits(rv.bkg, r0.bkg) and _same_bits(rv.rms, r0.rms)):
                nb = int(np.count_nonzero(rv.bkg.view(np.uint32) != r0.bkg.view(np.uint32))) if rv.bkg.shape == r0.bkg.shape else -1
                nr = int(np.count_nonzero(rv.rms.view(np.uint32) != r0.rms.view(np.uint32))) if rv.rms.shape == r0.rms.shape else -1
                out.violation("schedule-dependent",
                              "same input and stripe layout %s, but the maps differ between the canonical schedule "
                              "and a %s schedule (cores %s vs %s, fill %s): %d bkg and %d rms pixels differ"
                              % (r0.layout, sched["profile"], cfg["cores"], cores2 or cfg["cores"], fill, nb, nr),
                              sig=None, cfg=_cfg_str(cfg), layout=str(r0.layout))
                out.trace = _trace(rv)
                return out
        else:
            out.stats["probe:variant_changed_layout"] += 1

    # ---- another stripe layout: maps may change only by a small fraction of the local noise
    if other_layout:
        cfg2 = dict(cfg)
        cfg2["cores"] = ch.pick("cores_b", (1, 2, 3, 4, 6, 8))
        cfg2["nslice"] = None if ch.chance("nslice_b_none", 1, 2) else 1 + ch.draw("nslice_b", cfg2["cores"])
        r2 = _run(fn, cfg2, bw.canonical_sched(0, 0), ch, fill="payload")
        _count(out, r2)
        out.sample["runs"].append({"run": "other-layout", "status": r2.status, "layout": r2.layout})
        if not _basic(out, r2, cfg2, "second stripe layout"):
            return out
        gentle = content["kind"] == "noise" or (content["kind"] == "gradient" and content.get("slope_pow", -6) <= -6)
        eligible = (gentle and content["blank"] == "none"
                    and cfg["box"][0] * cfg["box"][1] >= 256 and cfg["rows"] >= cfg["box"][0]
                    and cfg["cols"] >= cfg["box"][1] and r2.layout != r0.layout)
        if eligible:
            out.stats["oracle:stripe_count_robust"] += 1
            sigma = 2.0 ** content["sigma_pow"]
            db = float(np.nanmax(np.abs(r2.bkg.astype(np.float64) - r0.bkg.astype(np.float64))))
            dr = float(np.nanmax(np.abs(r2.rms.astype(np.float64) - r0.rms.astype(np.float64))))
            out.maximum("layout_delta_in_sigma(threshold %.2f)" % SIGMA_FRACTION, max(db, dr) / sigma)
            if not (db <= SIGMA_FRACTION * sigma and dr <= SIGMA_FRACTION * sigma):
                out.violation("stripe-sensitivity",
                              "layouts %s and %s of the same image (noise rms %g, offset 2^%s) give maps that differ "
                              "by %.3g (bkg) and %.3g (rms) = %.1f x the local noise"
                              % (r0.layout, r2.layout, sigma, content["offset_pow"], db, dr, max(db, dr) / sigma),
                              sig=None, cfg=_cfg_str(cfg))
                return out

    return out


# ---- model conformance: the simulated world against real processes on fixed cases -------------------------------
def extra(tier, base_seed):
    """Runs a few fixed configurations with the REAL multiprocessing (subprocess, watchdog) and compares the maps
    byte for byte with the simulator's canonical run; also checks that /dev/shm is left as it was.
    Returns (violations, harness_errors, info)."""
    import json
    import signal
    import subprocess
    import sys
    import time
    from simkit.choices import Choices
    bw.setup()
    ncases = 3 if tier == "quick" else 12
    info = {"cases": 0, "identical": 0, "real_wall_s": 0.0, "configs": []}
    viol, herr = [], []
    here = os.path.dirname(os.path.dirname(os.path.abspath(__file__)))
    for i in range(ncases):
        ch = Choices(seed=(base_seed << 20) + 7919 * (i + 1))
        cfg = bw.gen_config(ch, allow_thin=False)
        content = bw.gen_content(ch, cfg)
        img = bw.make_image(cfg, content)
        fn = bw.write_image(bw.fresh_path("conf"), cfg, img)
        sim = _run(fn, cfg, bw.canonical_sched(0, 0), ch, fill="zeros")
        if sim.status != "returned":
            # the simulated run itself fails on this tree: that is the main batch's business, nothing to compare
            info["skipped_sim_did_not_return"] = info.get("skipped_sim_did_not_return", 0) + 1
            continue
        outp = os.path.join(bw.tmpdir(), "conf%d.npz" % i)
        segfile = outp + ".segments"
        if os.path.exists(segfile):
            os.remove(segfile)
        t0 = time.time()
        for attempt in (0, 1):      # one retry: another program deleting /dev/shm entries can break a real run
            p = subprocess.Popen([sys.executable, os.path.join(here, "repro", "real_run.py"), fn, outp,
                                  json.dumps({k: cfg[k] for k in ("grid", "box", "cores", "mask", "nslice", "cube_index")})],
                                 stdout=subprocess.DEVNULL, stderr=subprocess.PIPE, stdin=subprocess.DEVNULL)
            try:
                _, err = p.communicate(timeout=60)
                hung = False
            except subprocess.TimeoutExpired:
                hung = True
                try:
                    os.killpg(p.pid, signal.SIGKILL)
                except (ProcessLookupError, PermissionError):
                    p.kill()
                p.communicate()
            if hung or (p.returncode == 0 and os.path.exists(outp)):
                break
            info["real_run_retries"] = info.get("real_run_retries", 0) + 1
        info["real_wall_s"] += time.time() - t0
        # only the segments this very run created are looked at (other programs may use /dev/shm concurrently)
        mine = [l.strip() for l in open(segfile)] if os.path.exists(segfile) else []
        left = sorted(n for n in mine if os.path.exists(os.path.join("/dev/shm", n)))
        for n in left:
            try:
                os.unlink(os.path.join("/dev/shm", n))
            except OSError:
                pass
        info["cases"] += 1
        info["configs"].append(_cfg_str(cfg))
        if hung:
            viol.append({"kind": "real-hang", "message": "REAL processes: filter_image did not finish within 60 s for %s "
                         "(the simulator's canonical run of the same input returned)" % _cfg_str(cfg), "cfg": _cfg_str(cfg)})
            continue
        if p.returncode != 0 or not os.path.exists(outp):
            viol.append({"kind": "real-raised", "message": "REAL processes: fault-free filter_image failed twice (rc=%s) for %s "
                         "while the simulated run returned: %s" % (p.returncode, _cfg_str(cfg),
                                                                  (err or b"").decode("utf8", "replace")[-400:]), "cfg": _cfg_str(cfg)})
            continue
        if left:
            viol.append({"kind": "real-shm-leak", "message": "REAL processes: segments left in /dev/shm: %s" % left, "cfg": _cfg_str(cfg)})
        z = np.load(outp)
        if _same_bits(z["bkg"], sim.bkg) and _same_bits(z["rms"], sim.rms):
            info["identical"] += 1
        else:
            herr.append("model conformance: simulated and real maps differ for %s (the simulator misrepresents the code)" % _cfg_str(cfg))
        os.remove(outp)
    info["real_wall_s"] = round(info["real_wall_s"], 2)
    # the findings D1-D4 re-checked with REAL processes (watchdog 25 s each): they must stay repaired
    if tier == "thorough":
        info["real_process_regressions"] = {}
        for d in ("D1", "D2", "D3", "D4"):
            pr = subprocess.run([sys.executable, os.path.join(here, "repro", "real_bane.py"), d], capture_output=True,
                                text=True, stdin=subprocess.DEVNULL, timeout=120)
            line = (pr.stdout.strip().splitlines() or ["?"])[-1]
            info["real_process_regressions"][d] = "ok" if pr.returncode == 0 else line[:200]
            if pr.returncode != 0:
                viol.append({"kind": "real-" + d, "message": "REAL processes, reproduction %s of a repaired finding fails again: %s"
                             % (d, line[:300])})
    # the Pool/Barrier model itself against real multiprocessing on toy workloads
    from simkit import selftest
    nsc, bad = selftest.compare(seeds=4 if tier == "quick" else 16)
    info["pool_model_selftest"] = {"scenarios": nsc, "agree": nsc - len(bad)}
    for b in bad:
        herr.append("simulated Pool/Barrier model disagrees with real multiprocessing: " + b)
    return viol, herr, info
