"""bane_world -- runs the real BANE (filter_image -> filter_mc_sharemem -> _sf2 -> sigma_filter)
inside the simulator.  See DESIGN.md section 3.

Real code: everything in AegeanTools.BANE, astropy FITS I/O on real small files, numpy/scipy,
CPython's Barrier logic and the production SharedMemory class.
Simulated: multiprocessing context / Pool / condition variable under the barrier (processes ->
kernel tasks), the shm name space (sandbox directory), uuid4.
"""
import errno
import hashlib
import logging
import os
import shutil
import sys
import tempfile
import warnings

import numpy as np

from simkit.kernel import HarnessError, Kernel, KernelStuck, SimKilled
from simkit.mp import ShmSandbox, SimMP

REPO = os.environ.get("VERIF_REPO", "/repo")

_state = {}

PAYLOAD64 = np.array([0x7FF85A5A00000000], dtype=np.uint64).tobytes()
DELAYS = (0.0, 1e-6, 1e-4, 1e-3, 1e-2, 0.1, 1.0, 10.0)
STALLS = (100.0, 1000.0, 10000.0)


def setup():
    """Import AegeanTools.BANE from /repo's working tree, once per process."""
    if "BANE" in _state:
        if _state.get("pid") != os.getpid():
            _fresh_tmp()            # forked child: never share scratch space with the parent
        return _state["BANE"]
    os.environ.setdefault("OMP_NUM_THREADS", "1")
    os.environ.setdefault("OPENBLAS_NUM_THREADS", "1")
    if REPO not in sys.path:
        sys.path.insert(0, REPO)
    warnings.simplefilter("ignore")
    np.seterr(all="ignore")
    logging.disable(logging.CRITICAL)
    import AegeanTools
    from AegeanTools import BANE
    here = os.path.realpath(os.path.dirname(AegeanTools.__file__))
    if not here.startswith(os.path.realpath(REPO) + os.sep):
        raise HarnessError("AegeanTools imported from %s, not from %s" % (here, REPO))
    from astropy.io import fits
    _state["BANE"] = BANE
    _state["fits"] = fits
    _state["bane_file"] = BANE.__file__
    _fresh_tmp()
    import atexit
    atexit.register(cleanup)
    return BANE


def _fresh_tmp():
    _state["pid"] = os.getpid()
    _state["tmp"] = tempfile.mkdtemp(prefix="verif-bane-")
    os.mkdir(os.path.join(_state["tmp"], "shm"))
    if "sandbox" in _state:
        _state["sandbox"].root = os.path.join(_state["tmp"], "shm")
    else:
        _state["sandbox"] = ShmSandbox(os.path.join(_state["tmp"], "shm"))
    import multiprocessing.util as mpu
    mpu.Finalize(None, cleanup, exitpriority=-100)     # forked pool workers leave through os._exit


def cleanup():
    tmp = _state.get("tmp")
    if tmp and _state.get("pid") == os.getpid() and os.path.isdir(tmp):
        shutil.rmtree(tmp, ignore_errors=True)


def tmpdir():
    setup()
    return _state["tmp"]


def fresh_path(stem, ext=".fits"):
    """A path that this process has never used before: a case must not meet a file name that an earlier case of the same
    runner process has used (the code under test may key process-level caches on file names)."""
    setup()
    _state["nfile"] = _state.get("nfile", 0) + 1
    return os.path.join(_state["tmp"], "%s_%d%s" % (stem, _state["nfile"], ext))


def remove_quietly(*paths):
    for p in paths:
        try:
            os.remove(p)
        except OSError:
            pass


# ------------------------------------------------------------------------------------------
# workload: configuration and image files
# ------------------------------------------------------------------------------------------
def gen_config(ch, max_nodes=220, allow_thin=True):
    """Draw a BANE configuration (all from the decision stream; value 0 = simplest)."""
    cfg = {}
    gr = ch.pick("grid_r", (4, 2, 8, 3, 16, 5, 1, 6, 7, 12))
    if ch.chance("grid_nonsquare", 1, 4):
        gc = ch.pick("grid_c", (4, 2, 8, 3, 16, 5, 1, 6))
    else:
        gc = gr
    cfg["grid"] = (gr, gc)
    # number of grid nodes per axis bounds the cost of a run
    nr_max = max(2, min(160 // gr, 26))
    nc_max = max(2, min(64 // gc, max(2, max_nodes // 8)))
    nr = 1 + ch.draw("nodes_r", nr_max)
    nc = 1 + ch.draw("nodes_c", min(nc_max, max(1, max_nodes // nr)))
    rows = max(1, nr * gr - ch.draw("rows_off", gr))
    cols = max(1, nc * gc - ch.draw("cols_off", gc))
    if allow_thin and ch.chance("thin", 1, 40):
        if ch.draw("thin_axis", 2) == 0:
            rows = 1 + ch.draw("thin_rows", 2)
        else:
            cols = 1 + ch.draw("thin_cols", 2)
    cfg["rows"], cfg["cols"] = int(rows), int(cols)
    br = max(4, gr) + ch.draw("box_r", 5 * gr + 1)
    bc = max(4, gc) + ch.draw("box_c", 5 * gc + 1) if ch.chance("box_nonsquare", 1, 3) else max(max(4, gc), br)
    cfg["box"] = (int(br), int(bc))
    cores = ch.pick("cores", (2, 1, 3, 4, 2, 3, 5, 6, 8, 16, 7, 12))
    cfg["cores"] = cores
    cfg["ncpu"] = 16
    if ch.chance("cores_default", 1, 16):
        # cores=None: BANE asks multiprocessing.cpu_count() (simulated machine with 1, 2, 3 or 6 cpus)
        cfg["ncpu"] = cores = ch.pick("ncpu", (2, 1, 3, 6))
        cfg["cores"] = None
    k = ch.weighted("nslice_kind", [3, 4, 2])     # None | <= cores | up to 2*cores
    if k == 0:
        cfg["nslice"] = None
    elif k == 1:
        cfg["nslice"] = 1 + ch.draw("nslice", cores)
    else:
        cfg["nslice"] = 1 + ch.draw("nslice2", 2 * cores)
    cfg["mask"] = not ch.chance("nomask", 1, 4)
    cfg["naxis"] = ch.pick("naxis", (2, 2, 2, 3, 4))
    cfg["nplanes"] = 1 + ch.draw("nplanes", 3) if cfg["naxis"] > 2 else 1
    cfg["cube_index"] = ch.draw("cube_index", cfg["nplanes"])
    cfg["bitpix"] = ch.pick("bitpix", (-64, -32, -32, -64, 32, -32, 16))     # integer BITPIX: see gen_content
    # BSCALE keyword: the file stores physical/BSCALE (exact: powers of two); None = keyword absent
    cfg["bscale"] = ch.pick("bscale", (None, None, None, None, 2.0, None, -2.0, 0.5, 1.0, -1.0))
    # BZERO keyword (physical = stored * BSCALE + BZERO), with or without BSCALE; dyadic values keep everything exact
    cfg["bzero"] = ch.pick("bzero", (None, None, None, None, None, 128.0, -8.0, None))
    return cfg


def gen_content(ch, cfg):
    """Draw a description of the image content."""
    c = {}
    c["seed"] = ch.draw("img_seed", 1 << 20)
    c["kind"] = ch.pick("img_kind", ("noise", "noise", "gradient", "constant", "noise", "sources"))
    rel = ch.pick("offset", (None, 0, 3, 7, 10, 13, -3))     # DC offset = +-2**rel times the noise rms
    c["offset_neg"] = bool(ch.draw("offset_neg", 2))
    c["sigma_pow"] = ch.pick("sigma", (0, -4, 5, 0, -24, 14))             # noise rms 2**sigma_pow: also ~6e-8 and 16384
    c["offset_pow"] = None if rel is None else c["sigma_pow"] + rel
    c["slope_pow"] = ch.pick("slope", (-6, -3, -1))        # gradient images: 2**slope_pow noise rms per row (half per column)
    nb = ch.weighted("nblank_kind", [5, 2, 1, 1, 1, 2])                   # none|pixels|block|row|col|band
    c["blank"] = ("none", "pixels", "block", "row", "col", "band")[nb]
    c["blank_inf"] = bool(ch.draw("blank_inf", 2)) if nb else False
    c["blank_seed"] = ch.draw("blank_seed", 1 << 16) if nb else 0
    if cfg["bitpix"] > 0 and c["sigma_pow"] not in (0, -4, 5):
        # BSCALE must survive the 16 significant digits of a FITS header card exactly: 2**-32 does not
        c["sigma_pow"] = 0
        c["offset_pow"] = None if rel is None else rel
    if cfg["bitpix"] > 0:
        # integer pixels: the file stores physical / BSCALE with BSCALE = one quantum of the dyadic grid, so the stored
        # values are whole numbers; integer images cannot hold NaN/inf
        cfg["bscale"] = 2.0 ** (c["sigma_pow"] - 8)
        c["blank"], c["blank_inf"] = "none", False
        if cfg["bitpix"] == 16 and c["offset_pow"] is not None and c["offset_pow"] - c["sigma_pow"] + 8 > 13:
            c["offset_pow"] = c["sigma_pow"] + 4       # keep |stored| < 2^15
        if cfg.get("bzero") is not None:
            cfg["bzero"] = 1024.0 * cfg["bscale"] * (1.0 if cfg["bzero"] > 0 else -1.0)     # stays a whole number of quanta
        if cfg["bitpix"] == 16 and c["kind"] == "sources":
            cfg["bitpix"] = 32                         # bright sources do not fit into 16 bits at this quantum
    return c


def make_image(cfg, content, shift=0.0, scale=1.0):
    """Pixel values on a dyadic grid (multiples of 2**-10 * sigma) so that adding a dyadic
    constant and multiplying by a power of two are exact in float32 and float64."""
    rows, cols = cfg["rows"], cfg["cols"]
    rs = np.random.RandomState(content["seed"])
    sigma = 2.0 ** content["sigma_pow"]
    if content["kind"] == "constant":
        base = np.zeros((rows, cols))
    else:
        q = np.round(rs.normal(0.0, 1.0, size=(rows, cols)) * 256.0) / 256.0
        base = q * sigma
        if content["kind"] == "sources":
            # a few bright compact sources on top of the noise (outliers for the sigma clipping), kept on the dyadic grid
            rr, cc = np.mgrid[0:rows, 0:cols]
            blobs = np.zeros((rows, cols))
            for _ in range(1 + rs.randint(0, 5)):
                r0, c0 = rs.randint(0, rows), rs.randint(0, cols)
                amp = float(rs.choice((8.0, 32.0, 128.0, -16.0)))
                blobs += amp * np.exp(-0.5 * ((rr - r0) ** 2 + (cc - c0) ** 2) / 1.5 ** 2)
            base = base + np.round(blobs * 256.0) / 256.0 * sigma
        if content["kind"] == "gradient":
            rr = np.arange(rows)[:, None]
            cc = np.arange(cols)[None, :]
            sp = content.get("slope_pow", -6)
            base = base + sigma * (rr * 2.0 ** sp + cc * 2.0 ** (sp - 1))
    off = 0.0
    if content["offset_pow"] is not None:
        off = 2.0 ** content["offset_pow"] * (-1.0 if content["offset_neg"] else 1.0)
    img = (base + off + shift) * scale
    if content.get("band_rows"):
        r0, r1 = content["band_rows"]
        img[r0:r1, :] = np.inf if content.get("blank_inf") else np.nan
    elif content["blank"] != "none":
        bs = np.random.RandomState(content["blank_seed"])
        bad = np.inf if content["blank_inf"] else np.nan
        if content["blank"] == "pixels":
            n = 1 + bs.randint(0, max(1, rows * cols // 20))
            img[bs.randint(0, rows, n), bs.randint(0, cols, n)] = bad
        elif content["blank"] == "block":
            r0, c0 = bs.randint(0, rows), bs.randint(0, cols)
            r1, c1 = r0 + 1 + bs.randint(0, max(1, rows // 2)), c0 + 1 + bs.randint(0, max(1, cols // 2))
            img[r0:r1, c0:c1] = bad
        elif content["blank"] == "row":
            img[bs.randint(0, rows), :] = bad
        elif content["blank"] == "band":
            # a full-width band of blank rows (edge of a mosaic): whole stripes, halo included, can be blank
            r0 = bs.randint(0, rows)
            img[r0:r0 + 1 + bs.randint(0, max(1, (2 * rows) // 3)), :] = bad
        else:
            img[:, bs.randint(0, cols)] = bad
    return img


def file_dtype(cfg):
    return {-32: np.float32, -64: np.float64, 16: np.int16, 32: np.int32}[cfg["bitpix"]]


def write_image(path, cfg, img):
    """``img`` holds the physical pixel values; with a BSCALE keyword the file stores img / BSCALE."""
    fits = _state["fits"]
    dtype = file_dtype(cfg)
    bscale = cfg.get("bscale")
    bzero = cfg.get("bzero")
    data = ((img - (bzero or 0.0)) / (bscale or 1.0)).astype(dtype)
    if cfg["naxis"] == 3:
        cube = np.stack([data + 0] * cfg["nplanes"])
        for p in range(cfg["nplanes"]):
            if p != cfg["cube_index"]:
                cube[p] = cube[p] * 3.0 + 17.0       # other planes must not matter
        data = cube
    elif cfg["naxis"] == 4:
        cube = np.stack([data + 0] * cfg["nplanes"])
        for p in range(cfg["nplanes"]):
            if p != cfg["cube_index"]:
                cube[p] = cube[p] * 3.0 + 17.0
        data = cube[None]
    hdu = fits.PrimaryHDU(data)
    h = hdu.header
    h["CTYPE1"], h["CTYPE2"] = "RA---SIN", "DEC--SIN"
    h["CRVAL1"], h["CRVAL2"] = 30.0, -20.0
    h["CRPIX1"], h["CRPIX2"] = (cfg["cols"] + 1) / 2.0, (cfg["rows"] + 1) / 2.0
    h["CDELT1"], h["CDELT2"] = -1.0 / 3600, 1.0 / 3600
    if bscale:
        h["BSCALE"] = float(bscale)
    if bzero is not None:
        h["BZERO"] = float(bzero)
    hdu.writeto(path, overwrite=True)
    return path


# ------------------------------------------------------------------------------------------
# schedule / fault description of one run
# ------------------------------------------------------------------------------------------
def canonical_sched(hot_stride=0, line_mode=0):
    return {"profile": "canonical", "hot_stride": hot_stride, "line_mode": line_mode}


def gen_yield_settings(ch):
    hot = ch.pick("hot_stride", (0, 13, 3, 1, 0, 41))
    line = ch.weighted("line_mode", [6, 2, 1, 1])        # off | first occurrence | +stride 37 | +stride 7
    return hot, line


def gen_sched(ch, hot, line):
    prof = ch.pick("profile", ("uniform", "skewed", "tiny", "uniform", "heavy"))
    return {"profile": prof, "hot_stride": hot, "line_mode": line}


class Delays:
    """delay_fn for the kernel: draws every virtual delay from the decision stream."""

    def __init__(self, ch, sched):
        self.ch = ch
        self.profile = sched["profile"]
        self.factor = {}
        self.order = sched.get("order")      # profile 'ordered': {"perms": [rank per worker, ...] per phase, "stall": (worker, phase)}

    def _ordered(self, task, site):
        """Deterministic schedule that forces the order in which the stripes reach each synchronisation point (a rank
        x 100 s delay on the compute step that precedes the barrier) and optionally holds one stripe on the first source
        line it executes after leaving a given barrier for 5000 s."""
        if not task.name.startswith("w"):
            return 0.0
        idx = int(task.name[1:])
        o = self.order
        if site == "interp":
            phase = task.tags.get("ord_phase", 0)
            task.tags["ord_phase"] = phase + 1
            perms = o["perms"]
            if phase < len(perms) and idx < len(perms[phase]):
                return 100.0 * perms[phase][idx]
            return 0.0
        if site.startswith("barrier"):
            task.tags["ord_after_barrier"] = task.tags.get("ord_phase", 0)
            return 0.0
        if site.startswith("L") and task.tags.get("ord_after_barrier") is not None:
            phase = task.tags.pop("ord_after_barrier")
            if o.get("stall") is not None and tuple(o["stall"]) == (idx, phase):
                return 5000.0
        return 0.0

    def __call__(self, task, site):
        p = self.profile
        if p == "canonical":
            return 0.0
        if p == "ordered":
            return self._ordered(task, site)
        ch = self.ch
        if p == "tiny":
            return ch.draw("d", 4) * 1e-9
        if p == "uniform":
            return DELAYS[ch.draw("d", len(DELAYS))]
        if p == "heavy":
            v = ch.draw("d", 16)
            return 0.0 if v < 12 else (1e-3, 1.0, 30.0, 300.0)[v - 12]
        if p == "skewed":
            f = self.factor.get(task.name)
            if f is None:
                f = (1.0, 1.0, 1e-3, 1e3, 1e2)[ch.draw("speed", 5)]
                self.factor[task.name] = f
            return f * DELAYS[ch.draw("d", len(DELAYS))]
        raise HarnessError("unknown profile %r" % p)


class FaultPlan:
    """At most a few faults per run.  A fault is addressed by (task name, ordinal) where the
    ordinal counts the task's *eligible* yield points (at='yield') or traced line events
    (at='line'): for a pool worker the ones between picking a task up and having reported its
    result, for the parent all of them."""

    def __init__(self, faults=()):
        self.faults = [dict(f) for f in faults]   # kind, task, at, k, arg
        self.fired = []

    @staticmethod
    def _eligible(task):
        return task.name == "main" or task.tags.get("holding") is not None

    def fault_fn(self, task, site):
        if not self._eligible(task):
            return None
        idx = task.tags.get("fy", 0)
        task.tags["fy"] = idx + 1
        for f in self.faults:
            if f.get("done") or f["task"] != task.name or f["at"] != "yield" or f["k"] != idx:
                continue
            f["done"] = True
            if f["kind"] == "exc" and not (task.name == "main" or task.tags.get("in_func")):
                continue        # an exception cannot be raised inside pool machinery: not fired
            if f["kind"] == "exc" and site.startswith("L") and not task.tags.get("line_nested"):
                continue        # line of the outermost worker frame (its try:/except: lines): not fired
            self.fired.append(dict(kind=f["kind"], task=task.name, site=site, k=idx, at="yield",
                                   t=task.kernel.now))
            return self._act(f)
        return None

    def block_fn(self, task, label):
        """kill faults addressed at='block': the k-th time the task blocks while it holds a stripe."""
        if not self._eligible(task) or task.name == "main":
            return False
        idx = task.tags.get("fb", 0)
        task.tags["fb"] = idx + 1
        for f in self.faults:
            if f.get("done") or f["task"] != task.name or f["at"] != "block" or f["k"] != idx or f["kind"] != "kill":
                continue
            f["done"] = True
            self.fired.append(dict(kind="kill", task=task.name, site="blocked:" + str(label), k=idx, at="block",
                                   t=task.kernel.now))
            return True
        return False

    def line_fn_fault(self, task, frame):
        if not self._eligible(task):
            return None
        idx = task.tags.get("fl", 0)
        task.tags["fl"] = idx + 1
        for f in self.faults:
            if f.get("done") or f["task"] != task.name or f["at"] != "line" or f["k"] != idx:
                continue
            f["done"] = True
            if f["kind"] == "exc" and (frame.f_back is None or
                                       frame.f_back.f_code.co_filename != frame.f_code.co_filename):
                # the outermost frame of the worker function (its try:/except: lines) is not a
                # place where an ordinary exception can originate: not fired
                continue
            self.fired.append(dict(kind=f["kind"], task=task.name, site="L%d" % frame.f_lineno,
                                   k=idx, at="line", t=task.kernel.now))
            return self._act(f)
        return None

    @staticmethod
    def _act(f):
        if f["kind"] == "exc":
            return ("exc", make_exc(f.get("arg", 0)))
        if f["kind"] == "kill":
            return ("kill",)
        if f["kind"] == "stall":
            return ("stall", STALLS[f.get("arg", 0) % len(STALLS)])
        raise HarnessError("unknown fault kind %r" % f["kind"])


class InjectedFault(Exception):
    pass


class StripeReadError(Exception):
    """A library-style error whose constructor takes (filename, reason) but hands one formatted message to Exception:
    such an exception pickles, and cannot be un-pickled (a well-known pitfall; several third-party libraries have it)."""

    def __init__(self, filename, reason):
        super().__init__("cannot read %s: %s" % (filename, reason))
        self.filename = filename
        self.reason = reason


def make_exc(i):
    i = i % 5
    if i == 4:
        return StripeReadError("stripe.fits", "injected")
    if i == 0:
        return OSError(errno.EIO, "injected I/O error")
    if i == 1:
        return MemoryError()      # as CPython raises it: no message, str(e) == "" (seeded change r10c07)
    if i == 2:
        return InjectedFault("injected fault")
    return ValueError("injected value error")


# ------------------------------------------------------------------------------------------
# one simulated run
# ------------------------------------------------------------------------------------------
class RunResult:
    pass


class _FitsProxy:
    def __init__(self, real, k):
        self._real = real
        self._k = k

    def __getattr__(self, name):
        return getattr(self._real, name)

    def getheader(self, *a, **kw):
        self._k.yield_point("fits.getheader")
        return self._real.getheader(*a, **kw)

    def open(self, *a, **kw):
        self._k.yield_point("fits.open")
        return self._real.open(*a, **kw)


class _FakeUUID:
    def __init__(self):
        self.n = 0

    def uuid4(self):
        self.n += 1
        return "00000000-0000-4000-8000-%012d" % self.n

    def __getattr__(self, name):
        import uuid
        return getattr(uuid, name)


def run_bane(filename, cfg, sched, ch, faults=None, fill="payload", ncpu=16, cores_override=None,
             max_steps=60000, wall_cap_s=60.0, keep_arrays=True, setup_fault=None):
    """Run BANE.filter_image once under the kernel.  Every decision comes from ``ch``."""
    BANE = setup()
    import multiprocessing
    import multiprocessing.shared_memory as real_shm_mod

    delays = Delays(ch, sched)
    k = Kernel(delay_fn=delays, max_steps=max_steps, wall_cap_s=wall_cap_s)
    plan = faults if faults is not None else FaultPlan()
    k.fault_fn = plan.fault_fn
    k.block_fault_fn = plan.block_fn
    pick = (lambda n: ch.draw("lockpick", n)) if sched["profile"] != "canonical" else None
    sim = SimMP(k, ncpu=cfg.get("ncpu", ncpu), pick=pick)
    sandbox = _state["sandbox"]
    _reset_sandbox(sandbox, k, fill)
    # a failure of the parent's own set-up: the n-th shared-memory segment cannot be created (/dev/shm full), or the
    # operating system refuses to start the pool's worker processes
    sim.pool_start_error = None
    sim.pool_start_fired = False
    if setup_fault is not None:
        if setup_fault[0] == "shm":
            sandbox.fail_create = {setup_fault[1]: OSError(errno.ENOSPC, "No space left on device")}
        elif setup_fault[0] == "pool":
            sim.pool_start_error = OSError(errno.EAGAIN, "Resource temporarily unavailable")

    hot_stride = sched.get("hot_stride", 0)
    line_mode = sched.get("line_mode", 0)
    hot_count = [0]
    real_sigmaclip = BANE.__dict__["sigmaclip"]
    real_rgi = BANE.__dict__["RegularGridInterpolator"]

    def sim_sigmaclip(*a, **kw):
        if hot_stride:
            t = k.current
            if t is not None:
                c = t.tags.get("hot", 0) + 1
                t.tags["hot"] = c
                if c % hot_stride == 0 or c == 1:
                    k.yield_point("sigmaclip")
        return real_sigmaclip(*a, **kw)

    def sim_rgi(*a, **kw):
        k.yield_point("interp")
        return real_rgi(*a, **kw)

    if line_mode:
        k.trace_files = (BANE.__file__,)
        stride = {1: 0, 2: 37, 3: 7}[line_mode]

        def line_fn(task, frame):
            act = plan.line_fn_fault(task, frame)
            if act is not None:
                return act
            task.tags["line_nested"] = (frame.f_back is not None and
                                        frame.f_back.f_code.co_filename == frame.f_code.co_filename)
            key = (frame.f_code.co_name, frame.f_lineno)
            if key not in task.seen_lines:
                task.seen_lines.add(key)
                if plan._eligible(task):
                    task.tags.setdefault("first_lines", []).append(
                        (task.tags.get("fl", 1) - 1, key[0], key[1], task.tags["line_nested"]))
                return "yield"
            if stride and task.nline % stride == 0:
                return "yield"
            return None
        k.line_fn = line_fn

    main_cfg = dict(cfg)
    if cores_override is not None:
        main_cfg["cores"] = cores_override

    def main_cli():
        """Through the command line front end: AegeanTools/CLI/BANE.py main(argv); the maps are read back from the
        *_bkg.fits / *_rms.fits files it writes."""
        from AegeanTools.CLI import BANE as cli
        base = main_cfg["out_base"]
        argv = [filename, "--out", base, "--grid", str(main_cfg["grid"][0]), str(main_cfg["grid"][1]),
                "--box", str(main_cfg["box"][0]), str(main_cfg["box"][1]), "--slice", str(main_cfg["cube_index"])]
        if main_cfg["cores"] is not None:
            argv += ["--cores", str(main_cfg["cores"])]
        if main_cfg["nslice"] is not None:
            argv += ["--stripes", str(main_cfg["nslice"])]
        if not main_cfg["mask"]:
            argv += ["--nomask"]
        rc = cli.main(argv)
        if rc != 0:
            raise RuntimeError("BANE command line returned %r" % (rc,))
        fits_ = _state["fits"]
        return (np.array(fits_.getdata(base + "_bkg.fits"), dtype=np.float32),
                np.array(fits_.getdata(base + "_rms.fits"), dtype=np.float32))

    def main():
        if main_cfg.get("via_cli"):
            return main_cli()
        return BANE.filter_image(filename, out_base=main_cfg.get("out_base"),
                                 step_size=tuple(main_cfg["grid"]), box_size=tuple(main_cfg["box"]),
                                 cores=main_cfg["cores"], mask=main_cfg["mask"],
                                 compressed=bool(main_cfg.get("compressed", False)),
                                 nslice=main_cfg["nslice"], cube_index=main_cfg["cube_index"])

    saved = {}
    patches = {
        "multiprocessing": sim, "SharedMemory": sandbox.SharedMemory, "uuid": _FakeUUID(),
        "sigmaclip": sim_sigmaclip, "RegularGridInterpolator": sim_rgi,
        "fits": _FitsProxy(_state["fits"], k),
    }
    for name, val in patches.items():
        saved[name] = BANE.__dict__.get(name, _MISSING)
        setattr(BANE, name, val)
    # also intercept late/other imports of the real module objects
    real_attrs = {}
    for name in ("get_context", "Pool", "Barrier", "cpu_count"):
        real_attrs[name] = getattr(multiprocessing, name)
        setattr(multiprocessing, name, getattr(sim, name))
    real_SM = real_shm_mod.SharedMemory
    real_shm_mod.SharedMemory = sandbox.SharedMemory

    res = RunResult()
    stuck = None
    try:
        mt = k.spawn("main", main)
        try:
            k.run(mt)
        except KernelStuck as e:
            stuck = e
        res.status = ("returned" if (mt.state == "DONE" and mt.exc is None and not mt.killed) else
                      "raised" if (mt.state == "DONE" and mt.exc is not None) else
                      "deadlock" if k.deadlocked else
                      "stepcap" if k.step_capped else "stuck")
        res.exc = mt.exc
        res.value = mt.result
        res.leaked = sandbox.existing() if res.status in ("returned", "raised") else []
        res.end_time = k.now
        if stuck is None:
            k.shutdown()
    finally:
        for name, val in saved.items():
            if val is _MISSING:
                delattr(BANE, name)
            else:
                setattr(BANE, name, val)
        # Module state written by the parent (e.g. BANE.memory_id) is deliberately NOT reset: the runs of one case are
        # consecutive calls in one process (cases themselves run in a forked child each), so state that leaks from one
        # call into the next is seen.  What the pool initializer assigned (BANE.barrier) is worker-process state and is
        # put back to the parent's value.
        sim.restore_worker_side_globals()
        for name, val in real_attrs.items():
            setattr(multiprocessing, name, val)
        real_shm_mod.SharedMemory = real_SM
    if stuck is not None:
        raise stuck

    res.kernel = k
    res.steps = k.steps
    res.switches = k.switches
    res.total_delay = k.total_delay
    res.rescue_time = k.rescue_time
    res.rescues = list(k.rescues)
    res.blocked_at_end = list(k.blocked_at_end)
    res.fired = list(plan.fired)
    if sim.pool_start_fired:
        res.fired.append(dict(kind="setup", task="main", site="Pool()", k=0, at="setup", t=0.0))
    for op in sandbox.ops:
        if op[0] == "create-failed":
            res.fired.append(dict(kind="setup", task="main", site="SharedMemory(create) " + op[1].split("_")[0], k=0,
                                  at="setup", t=0.0))
    res.sim = sim
    res.used_sim = bool(sim.contexts or sim.pools)
    res.layout = None
    res.pool_sizes = [p.processes for p in sim.pools]
    res.parties = [b._parties for b in sim.barriers]
    for p in sim.pools:
        for (_f, items, chunk) in p.map_calls:
            try:
                res.layout = tuple(tuple(int(v) for v in it[1]) for it in items)
            except Exception:     # noqa: BLE001
                res.layout = ("?", len(items))
            res.chunksize = chunk
    res.lost_tasks = sum(p.lost_tasks for p in sim.pools)
    res.barrier_stats = [dict(b.stats) for b in sim.barriers]
    res.worker_yields = {t.name: t.tags.get("fy", 0) for t in k.tasks}
    res.worker_lines = {t.name: t.tags.get("fl", 0) for t in k.tasks}
    res.worker_blocks = {t.name: t.tags.get("fb", 0) for t in k.tasks}
    res.first_lines = {t.name: list(t.tags.get("first_lines", ())) for t in k.tasks}
    res.yield_sites = {}
    res.ntasks = len(k.tasks)
    res.sites = dict(k.sites_seen)
    res.shm_ops = list(sandbox.ops)
    res.final_segments = dict(sandbox.final) if keep_arrays else {}
    res.fill = fill
    res.bkg = res.rms = None
    if res.status == "returned" and isinstance(res.value, tuple) and len(res.value) == 2:
        res.bkg, res.rms = res.value
    h = hashlib.sha256()
    h.update(k.digest().encode())
    h.update(res.status.encode())
    if res.exc is not None:
        h.update(type(res.exc).__name__.encode())
    for a in (res.bkg, res.rms):
        if isinstance(a, np.ndarray):
            h.update(str(a.dtype).encode() + str(a.shape).encode() + np.ascontiguousarray(a).tobytes())
    res.digest = h.hexdigest()
    res.sched_fp = k.schedule_fingerprint()
    res.log = k.log
    sandbox.cleanup()
    return res


_MISSING = object()


def _reset_sandbox(sb, k, fill):
    sb.k = k
    sb.fill = PAYLOAD64 if fill == "payload" else None
    sb.fail_create = {}
    sb.ncreate = 0
    sb.created = []
    sb.unlinked = []
    sb.final = {}
    sb.ops = []
    sb.tracker = []
    sb._pending_fill = {}
    sb.cleanup()


# ------------------------------------------------------------------------------------------
# oracles on a single run
# ------------------------------------------------------------------------------------------
def payload_nans32(a):
    """Number of float32 NaNs whose payload is not the canonical quiet NaN."""
    if not isinstance(a, np.ndarray) or a.dtype != np.float32:
        return 0
    bits = np.ascontiguousarray(a).view(np.uint32)
    isnan = (bits & 0x7FFFFFFF) > 0x7F800000
    return int(np.count_nonzero(isnan & ((bits & 0x007FFFFF) != 0x00400000)))


def payload_nans64(buf):
    bits = np.frombuffer(buf, dtype=np.uint64)
    isnan = (bits & np.uint64(0x7FFFFFFFFFFFFFFF)) > np.uint64(0x7FF0000000000000)
    return int(np.count_nonzero(isnan & ((bits & np.uint64(0x000FFFFFFFFFFFFF)) != np.uint64(0x0008000000000000))))


PROMPT_SLACK_S = 3600.0


def liveness_problems(res):
    """Termination / promptness oracle (applies to every run, faulted or not)."""
    out = []
    if res.status == "deadlock":
        out.append(("hang", "deadlock: every live task is blocked and no timer is pending: %s"
                    % ", ".join("%s@%s" % x for x in res.blocked_at_end)))
    elif res.status == "stepcap":
        out.append(("hang", "no termination within %d kernel steps (livelock)" % res.steps))
    elif res.rescue_time > PROMPT_SLACK_S:
        out.append(("hang", "progress only through a timeout: %.0f s of virtual time skipped waiting on %s"
                    % (res.rescue_time, ", ".join(sorted(set(str(r[1]) for r in res.rescues))))))
    return out


def leak_problems(res):
    if res.status in ("returned", "raised") and res.leaked:
        return [("shm-leak", "shared-memory segment(s) left behind after the call %s: %s"
                 % (res.status, ", ".join(res.leaked)))]
    return []


def completion_problems(res, cfg):
    """Fault-free (or stall-only) run: must return well-formed, fully written maps."""
    out = []
    if res.status == "raised":
        out.append(("raised", "fault-free call raised %s: %s" % (type(res.exc).__name__, str(res.exc)[:300])))
        return out
    if res.status != "returned":
        return out
    shape = (cfg["rows"], cfg["cols"])
    for name, a in (("bkg", res.bkg), ("rms", res.rms)):
        if not isinstance(a, np.ndarray):
            out.append(("bad-output", "%s is %s, not an array" % (name, type(a).__name__)))
            continue
        if a.shape != shape:
            out.append(("bad-output", "%s has shape %s, image has %s" % (name, a.shape, shape)))
        if res.fill == "payload":
            n = payload_nans32(a)
            if n:
                out.append(("unwritten", "%d pixel(s) of %s never written or computed from unwritten "
                            "shared memory (layout %s)" % (n, name, res.layout)))
    if res.fill == "payload" and not out:
        for name, buf in res.final_segments.items():
            n = payload_nans64(buf)
            if n:
                out.append(("unwritten", "%d pixel(s) of segment %s still hold the pre-fill pattern at unlink"
                            % (n, name)))
    return out


def shrink_hints(labels, values):
    """Structural candidates for the shrinker: a quieter schedule in one go (all virtual delays / lock picks / speed
    factors zero), then per half."""
    sched = [i for i, l in enumerate(labels) if l in ("d", "lockpick", "speed")]
    if not sched:
        return
    for part in (sched, sched[:len(sched) // 2], sched[len(sched) // 2:]):
        if any(values[i] for i in part):
            cand = list(values)
            for i in part:
                cand[i] = 0
            yield cand
