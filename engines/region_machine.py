"""region_machine -- seeded operation-history machine over a small pool of live ``Region`` objects, each
paired with a reference model (maxdepth, frozenset of deepest-level nested pixel ids).  DESIGN.md section 4.

The history is the quantifier: operations, read-only queries, exports, pickling, deepcopy and the
``restart`` fault (every in-memory object is dropped; only the .mim files written so far survive) are
drawn from one decision stream; after every operation every live region is observed (through a deep copy,
so that observing does not change the representation state the history has produced) and compared with
the model.
"""
import copy
import math
import os
import re
import shutil
import sys
import tempfile
import warnings

import numpy as np

from simkit.kernel import HarnessError

REPO = os.environ.get("VERIF_REPO", "/repo")
_state = {}


def setup():
    if "Region" in _state:
        if _state.get("pid") != os.getpid():
            _fresh_tmp()
        return _state["Region"]
    if REPO not in sys.path:
        sys.path.insert(0, REPO)
    warnings.simplefilter("ignore")
    import logging
    logging.disable(logging.CRITICAL)
    import healpy as hp
    import AegeanTools
    from AegeanTools import MIMAS, regions
    here = os.path.realpath(os.path.dirname(AegeanTools.__file__))
    if not here.startswith(os.path.realpath(REPO) + os.sep):
        raise HarnessError("AegeanTools imported from %s, not from %s" % (here, REPO))
    from astropy.io import fits
    _state.update(Region=regions.Region, regions=regions, MIMAS=MIMAS, hp=hp, fits=fits)
    _fresh_tmp()
    return regions.Region


def _fresh_tmp():
    _state["pid"] = os.getpid()
    _state["tmp"] = tempfile.mkdtemp(prefix="verif-region-")
    import multiprocessing.util as mpu
    mpu.Finalize(None, _cleanup, exitpriority=-100)
    import atexit
    atexit.register(_cleanup)


def _cleanup():
    tmp = _state.get("tmp")
    if tmp and _state.get("pid") == os.getpid() and os.path.isdir(tmp):
        shutil.rmtree(tmp, ignore_errors=True)


# ------------------------------------------------------------------------------------------
# reference model helpers (healpy nested index arithmetic is the trusted base)
# ------------------------------------------------------------------------------------------
def expand(pixels, depth, maxdepth):
    """Descendants at ``maxdepth`` of nested pixels given at ``depth`` (depth <= maxdepth)."""
    k = maxdepth - depth
    if k == 0:
        return set(int(p) for p in pixels)
    n = 4 ** k
    out = set()
    for p in pixels:
        p = int(p)
        out.update(range(p * n, (p + 1) * n))
    return out


def degrade(pixels, depth, maxdepth):
    """Ancestors at ``maxdepth`` of nested pixels given at ``depth`` (depth >= maxdepth)."""
    k = 2 * (depth - maxdepth)
    return set(int(p) >> k for p in pixels)


def radec_to_vec(ra, dec):
    hp = _state["hp"]
    return hp.ang2vec(np.pi / 2 - np.asarray(dec, dtype=float), np.asarray(ra, dtype=float))


def npix(depth):
    return 12 * 4 ** depth


def pixarea_deg(depth):
    return _state["hp"].nside2pixarea(2 ** depth, degrees=True)


class Slot:
    """A live region and its model."""

    def __init__(self, region, maxdepth, model):
        self.r = region
        self.maxdepth = maxdepth
        self.model = set(model)


# ------------------------------------------------------------------------------------------
# observation (never changes the live object)
# ------------------------------------------------------------------------------------------
def observe(slot, ch, probes=6):
    """Compare a live region with its model through a deep copy.  Returns a list of (kind, message)."""
    hp = _state["hp"]
    out = []
    md = slot.maxdepth
    try:
        obs = copy.deepcopy(slot.r)
        area0 = obs.get_area()
        dem = obs.get_demoted()
        ids = list(dem)
        area1 = obs.get_area()
    except Exception as e:      # noqa: BLE001
        return [("exception", "observing the region (get_area/get_demoted on a copy) raised %s: %s"
                 % (type(e).__name__, str(e)[:200]))]
    bad = [x for x in ids if not _is_int_valued(x) or not (0 <= x < npix(md))]
    if bad:
        out.append(("invalid-id", "get_demoted() returns %d identifier(s) that are not integers in [0, 12*4^%d), e.g. %r"
                    % (len(bad), md, bad[0])))
        return out
    got = set(int(x) for x in ids)
    if len(got) != len(ids):
        out.append(("duplicate-id", "get_demoted() returns the same pixel more than once"))
    if got != slot.model:
        extra = sorted(got - slot.model)[:3]
        missing = sorted(slot.model - got)[:3]
        out.append(("membership", "deepest-level pixel set differs from the set algebra result: %d pixels vs %d expected "
                    "(extra e.g. %s, missing e.g. %s)" % (len(got), len(slot.model), extra, missing)))
        return out
    expect = len(slot.model) * pixarea_deg(md)
    for tag, a in (("as stored", area0), ("after get_demoted", area1)):
        if not (abs(a - expect) <= 1e-9 * max(1.0, expect)):
            out.append(("area", "get_area() %s = %.12g deg^2 but %d pixels of depth %d cover %.12g deg^2 (ratio %.6g): "
                        "some sky is represented %s" % (tag, a, len(slot.model), md, expect, a / expect if expect else float("inf"),
                                                       "twice" if a > expect else "not at all")))
            return out
    # membership answers at probe points
    if probes:
        pts = _probe_points(slot, ch, probes)
        try:
            obs2 = copy.deepcopy(slot.r)
            ra = np.array([p[0] for p in pts])
            dec = np.array([p[1] for p in pts])
            ans = np.asarray(obs2.sky_within(ra, dec, degin=False))
        except Exception as e:      # noqa: BLE001
            return out + [("exception", "sky_within raised %s: %s" % (type(e).__name__, str(e)[:200]))]
        for (pra, pdec, expect_in), a in zip(pts, ans):
            if bool(a) != expect_in:
                out.append(("sky_within", "sky_within(ra=%.9g, dec=%.9g rad) = %s but the position is %s the region"
                            % (pra, pdec, bool(a), "inside" if expect_in else "outside")))
                break
    return out


def _is_int_valued(x):
    try:
        return float(x) == int(x) and math.isfinite(float(x))
    except (TypeError, ValueError, OverflowError):
        return False


def _probe_points(slot, ch, n):
    """(ra, dec, expected) triples: centres of member pixels, of non-member neighbours, random pixels, NaN."""
    hp = _state["hp"]
    md = slot.maxdepth
    nside = 2 ** md
    pts = []
    members = None
    for i in range(n):
        kind = ch.draw("probe_kind", 6)
        if kind >= 4 and pts and math.isfinite(pts[-1][0]) and math.isfinite(pts[-1][1]):
            # the same position again (kind 4) / another position inside the same pixel (kind 5): vector queries with
            # several positions per pixel
            pra, pdec, pexp = pts[-1]
            if kind == 5:
                q = int(hp.ang2pix(nside, np.pi / 2 - pdec, pra, nest=True))
                off = 0.15 * hp.nside2resol(nside)
                for dra, ddec in ((off, 0.0), (0.0, off), (-off, 0.0), (0.0, -off)):
                    ra2, dec2 = pra + dra / max(0.05, math.cos(pdec)), pdec + ddec
                    if abs(dec2) < math.pi / 2 and int(hp.ang2pix(nside, np.pi / 2 - dec2, ra2 % (2 * math.pi), nest=True)) == q:
                        pra, pdec = ra2 % (2 * math.pi), dec2
                        break
            pts.append((pra, pdec, pexp))
            continue
        kind = kind % 4
        if kind == 0 and slot.model:
            if members is None:
                members = sorted(slot.model)
            p = members[ch.draw("probe_member", len(members))]
            th, ph = hp.pix2ang(nside, p, nest=True)
            pts.append((float(ph), float(np.pi / 2 - th), True))
        elif kind == 1 and slot.model:
            if members is None:
                members = sorted(slot.model)
            p = members[ch.draw("probe_member", len(members))]
            nb = [int(q) for q in hp.get_all_neighbours(nside, p, nest=True) if q >= 0]
            q = nb[ch.draw("probe_nb", len(nb))]
            th, ph = hp.pix2ang(nside, q, nest=True)
            pts.append((float(ph), float(np.pi / 2 - th), q in slot.model))
        elif kind == 2:
            q = ch.draw("probe_pix", npix(md))
            th, ph = hp.pix2ang(nside, q, nest=True)
            pts.append((float(ph), float(np.pi / 2 - th), q in slot.model))
        else:
            which = ch.draw("probe_nan", 3)
            pts.append((float("nan") if which != 1 else 0.3, float("nan") if which != 0 else 0.2, False))
    return pts


# ------------------------------------------------------------------------------------------
# shape generators
# ------------------------------------------------------------------------------------------
SPECIAL_CENTRES = ((0.0, 0.0), (0.0, math.pi / 2), (0.0, -math.pi / 2), (2 * math.pi - 1e-9, 0.1), (1e-12, -0.4),
                   (math.pi, 1.2), (5.5, -1.5))


def gen_centre(ch):
    if ch.chance("special_centre", 1, 4):
        return SPECIAL_CENTRES[ch.draw("centre_i", len(SPECIAL_CENTRES))]
    ra = ch.draw("ra", 3600) * (2 * math.pi / 3600)
    dec = (ch.draw("dec", 1799) - 899) * (math.pi / 1800)
    return (ra, dec)


def gen_radius(ch, depth, budget):
    """Radius (radians) such that the disc holds roughly <= budget pixels of the given depth."""
    hp = _state["hp"]
    res = hp.nside2resol(2 ** depth)
    fmax = max(1.0, math.sqrt(budget / math.pi))
    f = (0.05, 0.4, 1.0, 2.5, 6.0, 12.0, 25.0, 0.6 * fmax, fmax)[ch.draw("radius_f", 9)]
    return min(f, fmax) * res


def gen_poly(ch, depth, budget):
    """A convex polygon (vertices on a small circle around a centre), as [[ra, dec], ...] in radians."""
    ra0, dec0 = gen_centre(ch)
    dec0 = max(-1.35, min(1.35, dec0))           # keep the construction away from the poles
    r = gen_radius(ch, depth, budget)
    r = min(0.2, max(r, 2.0 * _state["hp"].nside2resol(2 ** depth)))     # |dec0| + r stays below pi/2
    n = 3 + ch.draw("poly_n", 6)
    start = ch.draw("poly_rot", 12) * (2 * math.pi / 12 / n)
    verts = []
    for i in range(n):
        a = start + i * 2 * math.pi / n
        ddec = r * math.cos(a)
        dra = r * math.sin(a) / max(0.05, math.cos(dec0))
        verts.append([(ra0 + dra) % (2 * math.pi), dec0 + ddec])
    if ch.chance("poly_reverse", 1, 2):
        verts.reverse()
    return verts


# ------------------------------------------------------------------------------------------
# export decoders (the oracle for C12)
# ------------------------------------------------------------------------------------------
def decode_moc(path):
    """Returns (mocorder, [(order, ipix), ...]) from a MOC FITS file."""
    fits = _state["fits"]
    with fits.open(path) as h:
        tb = h[1]
        order_kw = tb.header.get("MOCORDER")
        ordering = str(tb.header.get("ORDERING", "")).strip()
        col = tb.columns.names[0]
        vals = [int(v) for v in np.asarray(tb.data[col]).ravel()] if len(tb.data) else []
    cells = []
    for u_ in vals:
        if u_ < 4:
            cells.append((-1, u_))
            continue
        order = (u_.bit_length() - 3) // 2          # floor(log2(u/4)/2)
        ipix = u_ - 4 * 4 ** order
        cells.append((order, ipix))
    return order_kw, ordering, cells


_SEX = re.compile(r"^(-?)(\d+):(\d+):(\d+(?:\.\d*)?)$")


def _sex(s):
    m = _SEX.match(s.strip())
    if not m:
        raise ValueError("cannot parse sexagesimal %r" % s)
    v = int(m.group(2)) + int(m.group(3)) / 60.0 + float(m.group(4)) / 3600.0
    return -v if m.group(1) else v


def decode_reg(path):
    """Returns a list of polygons; each polygon is a list of (ra_deg, dec_deg)."""
    polys = []
    with open(path) as f:
        for line in f:
            line = line.strip()
            if not line or line.startswith("#"):
                continue
            m = re.match(r"^fk5;\s*polygon\((.*)\)$", line)
            if not m:
                raise ValueError("unexpected line in DS9 file: %r" % line[:80])
            w = m.group(1).split(",")
            if len(w) % 2:
                raise ValueError("odd number of coordinates: %r" % line[:80])
            polys.append([(_sex(w[i]) * 15.0, _sex(w[i + 1])) for i in range(0, len(w), 2)])
    return polys


def _sep_arcsec(ra1, dec1, ra2, dec2):
    a1, d1, a2, d2 = map(math.radians, (ra1, dec1, ra2, dec2))
    v1 = (math.cos(d1) * math.cos(a1), math.cos(d1) * math.sin(a1), math.sin(d1))
    v2 = (math.cos(d2) * math.cos(a2), math.cos(d2) * math.sin(a2), math.sin(d2))
    cr = (v1[1] * v2[2] - v1[2] * v2[1], v1[2] * v2[0] - v1[0] * v2[2], v1[0] * v2[1] - v1[1] * v2[0])
    s = math.sqrt(sum(c * c for c in cr))
    c = sum(a * b for a, b in zip(v1, v2))
    return math.degrees(math.atan2(s, c)) * 3600.0


def match_polygon(poly, maxdepth, tol_arcsec=0.25):
    """The unique (level, pixel) whose four corners are the polygon's vertices, or None."""
    hp = _state["hp"]
    if len(poly) != 4:
        return None
    vec = np.array([[math.cos(math.radians(d)) * math.cos(math.radians(a)),
                     math.cos(math.radians(d)) * math.sin(math.radians(a)), math.sin(math.radians(d))] for a, d in poly])
    c = vec.sum(axis=0)
    c = c / np.linalg.norm(c)
    found = []
    for level in range(0, maxdepth + 1):
        p = int(hp.vec2pix(2 ** level, c[0], c[1], c[2], nest=True))
        b = hp.boundaries(2 ** level, p, step=1, nest=True).T       # 4 x 3
        th, ph = hp.vec2ang(b)
        corners = [(math.degrees(x), 90.0 - math.degrees(t)) for t, x in zip(th, ph)]
        ok = True
        used = set()
        for (a, d) in poly:
            hit = None
            for j, (ca, cd) in enumerate(corners):
                if j not in used and _sep_arcsec(a, d, ca, cd) <= tol_arcsec:
                    hit = j
                    break
            if hit is None:
                ok = False
                break
            used.add(hit)
        if ok:
            found.append((level, p))
    if len(found) == 1:
        return found[0]
    return None


# ------------------------------------------------------------------------------------------
# the machine
# ------------------------------------------------------------------------------------------
OPS = ("new", "add_circle", "add_circles_vec", "add_poly", "add_pixels_renorm", "add_pixels", "union", "without",
       "intersect", "symdiff", "alias", "q_sky_within", "q_get_demoted", "q_get_area", "q_repr", "deepcopy",
       "save_load", "restart", "combine", "intersect_files", "depth_mismatch", "write_fits", "write_reg", "mim_roundtrip")

EXPORT_OPS = ("write_fits", "write_reg", "mim_roundtrip")


class Machine:
    def __init__(self, ch, out, min_depth, max_depth, export_weight, budget=6000):
        setup()
        self.ch = ch
        self.out = out
        self.min_depth = min_depth
        self.max_depth = max_depth
        # swarm: the size scale of a history is a per-history knob (thresholds in the code under test, caches, must not
        # stay on one side of every generated region)
        self.budget = (budget, budget // 10, budget, budget * 6)[ch.draw("scale", 4)]
        self.slots = []
        self.trace = []
        self.dir = tempfile.mkdtemp(prefix="case-", dir=_state["tmp"])
        self.nfile = 0
        # swarm: a per-history subset of operations
        self.weights = {}
        for op in OPS:
            w = 3
            if op in EXPORT_OPS:
                w = export_weight
            elif op in ("add_pixels", "alias", "depth_mismatch", "combine", "intersect_files", "q_repr", "deepcopy"):
                w = 1
            elif op in ("add_circle", "union"):
                w = 5
            if op not in ("new", "add_circle") and w and ch.chance("disable_" + op, 1, 4):
                w = 0
            self.weights[op] = w

    def close(self):
        shutil.rmtree(self.dir, ignore_errors=True)

    # -- helpers -----------------------------------------------------------------------
    def _path(self, ext):
        self.nfile += 1
        return os.path.join(self.dir, "f%d.%s" % (self.nfile, ext))

    def _new_depth(self):
        lo, hi = self.min_depth, self.max_depth
        # small depths more often (cheap, and most state-machine bugs do not need depth)
        table = [d for d in range(lo, hi + 1)]
        pref = [d for d in table if d <= 7] or table
        if self.ch.chance("deep", 1, 5):
            return table[self.ch.draw("depth_any", len(table))]
        return pref[self.ch.draw("depth", len(pref))]

    def _pick(self, label="slot"):
        return self.slots[self.ch.draw(label, len(self.slots))]

    def _viol(self, kind, msg, **detail):
        self.out.violation(kind, "%s  [history: %s]" % (msg, " ; ".join(self.trace)), sig=detail.pop("sig", None),
                           nops=len(self.trace), **detail)
        self.out.trace = {"history": list(self.trace)}

    def _insert_depth(self, slot):
        """Depth argument for add_*: None, == maxdepth, coarser, or > maxdepth (clipped by the API)."""
        k = self.ch.weighted("depth_arg", [4, 2, 3, 1])
        md = slot.maxdepth
        if k == 0:
            return None, md
        if k == 1:
            return md, md
        if k == 2 and md > 1:
            d = max(1, md - 1 - self.ch.draw("coarser_by", min(3, md - 1)))
            return d, d
        return md + 1 + self.ch.draw("deeper_by", 3), md

    def _budget_at(self, slot, depth):
        return max(4, self.budget // (4 ** (slot.maxdepth - depth)))

    # -- operations --------------------------------------------------------------------
    def step(self, op=None):
        ch = self.ch
        if op is None:
            ops = [op for op in OPS if self.weights[op] > 0 and (op == "new" or self.slots)]
            if not self.slots:
                op = "new"
            else:
                op = ops[ch.weighted("op", [self.weights[o] for o in ops])]
            if op == "new" and len(self.slots) >= 4:
                op = "add_circle"
        self.out.stats["op:" + op] += 1
        try:
            getattr(self, "op_" + op)()
        except _Stop:
            return False
        except HarnessError:
            raise
        except Exception as e:      # noqa: BLE001
            import traceback
            tb = traceback.extract_tb(e.__traceback__)
            where = next(("%s:%d" % (os.path.basename(f.filename), f.lineno) for f in reversed(tb)
                          if "/AegeanTools/" in f.filename), "?")
            self.trace.append(op + "!")
            self._viol("exception", "operation %s raised %s: %s (at %s)" % (op, type(e).__name__, str(e)[:160], where),
                       sig=type(e).__name__ + "@" + where.split(":")[0])
            return False
        # observe every live region
        for i, s in enumerate(self.slots):
            self.out.stats["oracle:observe"] += 1
            probs = observe(s, ch, probes=4)
            if probs:
                kind, msg = probs[0]
                self._viol(kind, "region #%d (depth %d) after %s: %s" % (i, s.maxdepth, op, msg), sig=None)
                return False
            self.out.states.add(self._abstract(s, op))
        return True

    def _abstract(self, s, op):
        try:
            return self._abstract_inner(s, op)
        except Exception:       # noqa: BLE001 - coverage measure only; never part of an oracle
            return "?|%s" % op

    def _abstract_inner(self, s, op):
        pd = s.r.pixeldict
        md = s.maxdepth
        coarse = any(len(pd.get(d, ())) for d in range(1, md))
        deep = len(pd.get(md, ())) > 0
        cached = len(s.r.demoted) > 0
        n = len(s.model)
        bucket = 0 if n == 0 else 1 if n < 10 else 2 if n < 200 else 3 if n < 3000 else 4
        prev = self.trace[-2].split("(")[0] if len(self.trace) > 1 else "-"
        return "%d|%d%d%d|%d|%s>%s" % (min(md, 8), coarse, deep, cached, bucket, prev, op)

    def op_new(self):
        Region = _state["Region"]
        md = self._new_depth()
        self.trace.append("new(maxdepth=%d)" % md)
        self.slots.append(Slot(Region(maxdepth=md), md, set()))

    def op_add_circle(self):
        hp = _state["hp"]
        s = self._pick()
        darg, d = self._insert_depth(s)
        ra, dec = gen_centre(self.ch)
        whole = s.maxdepth <= 6 and self.ch.chance("whole_sky", 1, 30)
        rad = 3.2 if whole else gen_radius(self.ch, d, self._budget_at(s, d))
        self.trace.append("#%d.add_circles(%.6g,%.6g,%.4g,depth=%s)" % (self.slots.index(s), ra, dec, rad, darg))
        s.r.add_circles(ra, dec, rad, depth=darg)
        pix = hp.query_disc(2 ** d, radec_to_vec(ra, dec), rad, inclusive=True, nest=True)
        s.model |= expand(pix, d, s.maxdepth)
        if whole:
            self.out.stats["probe:whole_sky"] += 1

    def op_add_circles_vec(self):
        hp = _state["hp"]
        s = self._pick()
        darg, d = self._insert_depth(s)
        n = 1 + self.ch.draw("ncircles", 4)
        ras, decs, rads = [], [], []
        for _ in range(n):
            ra, dec = gen_centre(self.ch)
            ras.append(ra)
            decs.append(dec)
            rads.append(gen_radius(self.ch, d, self._budget_at(s, d) // n))
        self.trace.append("#%d.add_circles(%d circles,depth=%s)" % (self.slots.index(s), n, darg))
        as_array = self.ch.chance("as_array", 1, 2)
        if as_array:
            s.r.add_circles(np.array(ras), np.array(decs), np.array(rads), depth=darg)
        else:
            s.r.add_circles(list(ras), list(decs), list(rads), depth=darg)
        for ra, dec, rad in zip(ras, decs, rads):
            pix = hp.query_disc(2 ** d, radec_to_vec(ra, dec), rad, inclusive=True, nest=True)
            s.model |= expand(pix, d, s.maxdepth)

    def op_add_poly(self):
        hp = _state["hp"]
        s = self._pick()
        darg, d = self._insert_depth(s)
        verts = gen_poly(self.ch, d, self._budget_at(s, d))
        vec = radec_to_vec([v[0] for v in verts], [v[1] for v in verts])
        try:
            pix = hp.query_polygon(2 ** d, vec, inclusive=True, nest=True)
        except Exception:     # noqa: BLE001 - healpy rejects the polygon: not a usable input
            self.out.stats["poly_rejected_by_healpy"] += 1
            return
        self.trace.append("#%d.add_poly(%d vertices,depth=%s)" % (self.slots.index(s), len(verts), darg))
        s.r.add_poly(verts, depth=darg)
        s.model |= expand(pix, d, s.maxdepth)

    def _gen_pixels(self, s):
        md = s.maxdepth
        d = md if self.ch.chance("pix_at_maxdepth", 1, 2) or md == 1 else max(1, md - 1 - self.ch.draw("pix_coarser", min(3, md - 1)))
        n = 1 + self.ch.draw("npixels", 12)
        base = self.ch.draw("pix_base", npix(d))
        if self.ch.chance("pixel_last", 1, 10):
            base = npix(d) - n        # ... and so do the last pixels of the sphere
        if self.ch.chance("pixel_zero", 1, 5):
            base = 0          # pixel number 0 (falsy, first of its quad) deserves to be met often
            if self.ch.chance("pixel_zero_alone", 1, 2):
                n = 1
        run = self.ch.chance("pix_run", 1, 2)
        pix = [(base + (i if run else self.ch.draw("pix_off", 64))) % npix(d) for i in range(n)]
        return pix, d

    def op_add_pixels_renorm(self):
        s = self._pick()
        pix, d = self._gen_pixels(s)
        self.trace.append("#%d.add_pixels(%s,depth=%d)+_renorm" % (self.slots.index(s), pix[:4], d))
        s.r.add_pixels(np.array(pix) if self.ch.chance("pix_array", 1, 2) else pix, d)
        s.r._renorm()
        s.model |= expand(pix, d, s.maxdepth)

    def op_add_pixels(self):
        s = self._pick()
        pix, d = self._gen_pixels(s)
        self.trace.append("#%d.add_pixels(%s,depth=%d)" % (self.slots.index(s), pix[:4], d))
        s.r.add_pixels(pix, d)
        s.model |= expand(pix, d, s.maxdepth)
        self.out.stats["probe:add_pixels_alone"] += 1

    def _two(self, same_depth):
        a = self._pick("slot_a")
        cands = [s for s in self.slots if (s.maxdepth == a.maxdepth) == same_depth and s is not a]
        if not cands:
            return a, None
        return a, cands[self.ch.draw("slot_b", len(cands))]

    def op_union(self):
        a = self._pick("slot_a")
        others = [s for s in self.slots if s is not a]
        if not others:
            return self.op_add_circle()
        b = others[self.ch.draw("slot_b", len(others))]
        if b.maxdepth < a.maxdepth and len(b.model) * 4 ** (a.maxdepth - b.maxdepth) > 8 * self.budget:
            self.out.stats["skipped_too_large"] += 1
            return self.op_add_circle()
        self.trace.append("#%d.union(#%d)" % (self.slots.index(a), self.slots.index(b)))
        a.r.union(b.r)
        if b.maxdepth <= a.maxdepth:
            a.model |= expand(b.model, b.maxdepth, a.maxdepth)
            if b.maxdepth < a.maxdepth:
                self.out.stats["probe:union_coarser"] += 1
        else:
            a.model |= degrade(b.model, b.maxdepth, a.maxdepth)
            self.out.stats["probe:union_finer"] += 1

    def _binary(self, name, fn):
        a, b = self._two(True)
        if b is None:
            return self.op_add_circle()
        self.trace.append("#%d.%s(#%d)" % (self.slots.index(a), name, self.slots.index(b)))
        getattr(a.r, name)(b.r)
        a.model = fn(a.model, b.model)

    def op_without(self):
        self._binary("without", lambda x, y: x - y)

    def op_intersect(self):
        self._binary("intersect", lambda x, y: x & y)

    def op_symdiff(self):
        self._binary("symmetric_difference", lambda x, y: x ^ y)

    def op_alias(self):
        s = self._pick()
        which = self.ch.draw("alias_op", 4)
        name = ("union", "intersect", "without", "symmetric_difference")[which]
        self.trace.append("#%d.%s(#%d)" % (self.slots.index(s), name, self.slots.index(s)))
        getattr(s.r, name)(s.r)
        if which >= 2:
            s.model = set()

    def op_depth_mismatch(self):
        a, b = self._two(False)
        if b is None:
            return
        name = ("without", "intersect", "symmetric_difference")[self.ch.draw("mismatch_op", 3)]
        self.trace.append("#%d.%s(#%d)!depth" % (self.slots.index(a), name, self.slots.index(b)))
        try:
            getattr(a.r, name)(b.r)
        except AssertionError:
            self.out.stats["probe:depth_mismatch_rejected"] += 1
            return
        self._viol("no-reject", "%s between regions of depth %d and %d did not raise AssertionError" % (name, a.maxdepth, b.maxdepth))
        raise _Stop()

    def op_q_sky_within(self):
        s = self._pick()
        pts = _probe_points(s, self.ch, 1 + self.ch.draw("nq", 5))
        deg = self.ch.chance("degin", 1, 2)
        scalar = len(pts) == 1 and self.ch.chance("scalar", 1, 2)
        self.trace.append("#%d.sky_within(%d pts,degin=%s%s)" % (self.slots.index(s), len(pts), deg, ",scalar" if scalar else ""))
        ra = np.array([p[0] for p in pts])
        dec = np.array([p[1] for p in pts])
        if deg:
            ra, dec = np.degrees(ra), np.degrees(dec)
            # degrees -> radians inside sky_within may move a pixel-centre probe by an ulp; that never crosses a pixel
        if scalar:
            ans = s.r.sky_within(float(ra[0]), float(dec[0]), degin=deg)
        elif self.ch.chance("as_lists", 1, 3):
            ans = s.r.sky_within([float(x) for x in ra], [float(x) for x in dec], degin=deg)
        else:
            ans = s.r.sky_within(ra, dec, degin=deg)
        ans = np.atleast_1d(np.asarray(ans))
        self.out.stats["oracle:sky_within_query"] += 1
        if len(ans) != len(pts):
            self._viol("sky_within", "sky_within returned %d answers for %d positions" % (len(ans), len(pts)))
            raise _Stop()
        for (pra, pdec, exp), a in zip(pts, ans):
            if bool(a) != exp:
                self._viol("sky_within", "sky_within(ra=%.9g, dec=%.9g rad, given in %s) = %s but the position is %s the region"
                           % (pra, pdec, "degrees" if deg else "radians", bool(a), "inside" if exp else "outside"))
                raise _Stop()

    def op_q_get_demoted(self):
        s = self._pick()
        self.trace.append("#%d.get_demoted()" % self.slots.index(s))
        got = s.r.get_demoted()
        self.out.stats["oracle:get_demoted_query"] += 1
        if any(not _is_int_valued(x) for x in got) or set(int(x) for x in got) != s.model:
            self._viol("membership", "get_demoted() on the live region differs from the set algebra result (%d vs %d pixels)"
                       % (len(got), len(s.model)))
            raise _Stop()

    def op_q_get_area(self):
        s = self._pick()
        deg = self.ch.chance("area_deg", 1, 2)
        self.trace.append("#%d.get_area(degrees=%s)" % (self.slots.index(s), deg))
        a = s.r.get_area(degrees=deg)
        expect = len(s.model) * _state["hp"].nside2pixarea(2 ** s.maxdepth, degrees=deg)
        self.out.stats["oracle:get_area_query"] += 1
        if not abs(a - expect) <= 1e-9 * max(1.0, expect) * (1 if deg else 1e-3):
            self._viol("area", "get_area(degrees=%s) = %.12g, expected %.12g from %d pixels" % (deg, a, expect, len(s.model)))
            raise _Stop()

    def op_q_repr(self):
        s = self._pick()
        self.trace.append("repr(#%d)" % self.slots.index(s))
        repr(s.r)

    def op_deepcopy(self):
        s = self._pick()
        self.trace.append("#%d=deepcopy(#%d)" % (len(self.slots), self.slots.index(s)))
        c = copy.deepcopy(s.r)
        if len(self.slots) < 4:
            self.slots.append(Slot(c, s.maxdepth, set(s.model)))
        else:
            s.r = c

    def op_save_load(self):
        Region = _state["Region"]
        s = self._pick()
        path = self._path("mim")
        via = self.ch.draw("save_via", 2)
        self.trace.append("#%d=load(save(#%d)%s)" % (self.slots.index(s), self.slots.index(s), " via MIMAS" if via else ""))
        if via:
            _state["MIMAS"].save_region(s.r, path)
        else:
            s.r.save(path)
        s.r = Region.load(path)
        self.out.stats["probe:pickle_roundtrip"] += 1

    def op_restart(self):
        """Dirty restart: all live regions are saved, every Python object is dropped, the pool is rebuilt from
        the .mim files -- only durable state survives."""
        Region = _state["Region"]
        self.trace.append("RESTART")
        paths = []
        for s in self.slots:
            p = self._path("mim")
            s.r.save(p)
            paths.append(p)
        for s in self.slots:
            s.r = None
        import gc
        gc.collect()
        for s, p in zip(self.slots, paths):
            s.r = Region.load(p)
        self.out.stats["fault:restart"] += 1

    def op_combine(self):
        """MIMAS.combine_regions on saved files + circles + polygons."""
        MIMAS = _state["MIMAS"]
        hp = _state["hp"]
        md = self._new_depth()
        cont = MIMAS.Dummy(maxdepth=md)
        model = set()
        desc = []
        for s in self.slots:
            if self.ch.chance("comb_add", 1, 3):
                if s.maxdepth < md and len(s.model) * 4 ** (md - s.maxdepth) > 8 * self.budget:
                    self.out.stats["skipped_too_large"] += 1
                    continue
                p = self._path("mim")
                s.r.save(p)
                cont.add_region.append([p])
                model |= expand(s.model, s.maxdepth, md) if s.maxdepth <= md else degrade(s.model, s.maxdepth, md)
                desc.append("+#%d" % self.slots.index(s))
        for s in self.slots:
            if s.maxdepth == md and self.ch.chance("comb_rem", 1, 4):
                p = self._path("mim")
                s.r.save(p)
                cont.rem_region.append([p])
                model -= s.model
                desc.append("-#%d" % self.slots.index(s))
        for sign in ("+", "-"):
            if self.ch.chance("comb_circ" + sign, 1, 2):
                ra, dec = gen_centre(self.ch)
                rad = gen_radius(self.ch, md, self.budget)
                flat = [math.degrees(ra), math.degrees(dec), math.degrees(rad)]
                rra, rdec, rrad = np.radians(np.array(flat))
                pix = expand(hp.query_disc(2 ** md, radec_to_vec(rra, rdec), rrad, inclusive=True, nest=True), md, md)
                if sign == "+":
                    cont.include_circles.append(flat)
                    model |= pix
                else:
                    cont.exclude_circles.append(flat)
                    model -= pix
                desc.append(sign + "circle")
        # the documented order of construction is: + regions, - regions, + circles, - circles, + polygons, - polygons
        for sign in ("+", "-"):
            if self.ch.chance("comb_poly" + sign, 1, 3):
                verts = gen_poly(self.ch, md, self.budget)
                flat = []
                for v in verts:
                    flat += [math.degrees(v[0]), math.degrees(v[1])]
                rad = np.radians(np.array(flat)).reshape((len(flat) // 2, 2))
                vec = radec_to_vec(rad[:, 0], rad[:, 1])
                try:
                    pix = expand(hp.query_polygon(2 ** md, vec, inclusive=True, nest=True), md, md)
                except Exception:     # noqa: BLE001 - healpy rejects the polygon: not a usable input
                    self.out.stats["poly_rejected_by_healpy"] += 1
                    continue
                if sign == "+":
                    cont.include_polygons.append(flat)
                    model |= pix
                else:
                    cont.exclude_polygons.append(flat)
                    model -= pix
                desc.append(sign + "polygon")
        self.trace.append("#%d=combine_regions(maxdepth=%d,%s)" % (len(self.slots), md, ",".join(desc)))
        r = MIMAS.combine_regions(cont)
        self.out.stats["probe:combine_regions"] += 1
        if len(self.slots) < 4:
            self.slots.append(Slot(r, md, model))
        else:
            self.slots[self.ch.draw("replace", len(self.slots))] = Slot(r, md, model)

    def op_intersect_files(self):
        MIMAS = _state["MIMAS"]
        a, b = self._two(True)
        if b is None:
            return
        pa, pb = self._path("mim"), self._path("mim")
        a.r.save(pa)
        b.r.save(pb)
        self.trace.append("#%d=intersect_regions(#%d,#%d)" % (len(self.slots), self.slots.index(a), self.slots.index(b)))
        r = MIMAS.intersect_regions([pa, pb])
        slot = Slot(r, a.maxdepth, a.model & b.model)
        if len(self.slots) < 4:
            self.slots.append(slot)
        else:
            self.slots[self.ch.draw("replace", len(self.slots))] = slot

    # -- exports (C12) -------------------------------------------------------------------
    def op_write_fits(self):
        s = self._pick()
        path = self._path("fits")
        via = self.ch.draw("fits_via", 2)
        self.trace.append("#%d.write_fits()%s" % (self.slots.index(s), " via mim2fits" if via else ""))
        if via:
            mim = self._path("mim")
            s.r.save(mim)
            _state["MIMAS"].mim2fits(mim, path)
        else:
            s.r.write_fits(path)
        self.out.stats["oracle:moc_decode"] += 1
        order_kw, ordering, cells = decode_moc(path)
        if order_kw != s.maxdepth:
            self._viol("moc-order", "MOC FITS states MOCORDER=%r but the region depth is %d" % (order_kw, s.maxdepth))
            raise _Stop()
        bad = [c for c in cells if c[0] < 0 or c[0] > s.maxdepth or not (0 <= c[1] < npix(c[0]))]
        if bad:
            self._viol("moc-cell", "MOC FITS holds %d invalid NUNIQ cell(s), e.g. order %d ipix %d (region depth %d)"
                       % (len(bad), bad[0][0], bad[0][1], s.maxdepth))
            raise _Stop()
        got = set()
        total = 0
        for order, ipix in cells:
            e = expand([ipix], order, s.maxdepth)
            total += len(e)
            got |= e
        if got != s.model:
            self._viol("moc-content", "decoded MOC covers %d deepest-level pixels, the region has %d (missing %d, extra %d); "
                       "cell orders present: %s" % (len(got), len(s.model), len(s.model - got), len(got - s.model),
                                                    sorted(set(c[0] for c in cells))))
            raise _Stop()
        if total != len(got):
            # the property does not state that exported cells are disjoint (a region that was not renormalised
            # exports a cell together with its descendants): counted, not a violation
            self.out.stats["probe:export_overlapping_cells"] += 1
        if not s.model:
            self.out.stats["probe:export_empty"] += 1
        if len(set(c[0] for c in cells)) > 1:
            self.out.stats["probe:export_multilevel"] += 1
        if len(getattr(s.r, "demoted", ())) > 0:        # (coverage probe only)
            self.out.stats["probe:export_after_demote"] += 1

    def op_write_reg(self):
        s = self._pick()
        if len(s.model) > 600 and not (len(s.model) <= 2500 and self.ch.chance("big_reg", 1, 4)):
            return self.op_write_fits()      # (DS9 export and its decoding cost ~1 ms per cell: large ones only sometimes)
        path = self._path("reg")
        via = self.ch.draw("reg_via", 2)
        self.trace.append("#%d.write_reg()%s" % (self.slots.index(s), " via mim2reg" if via else ""))
        if via:
            mim = self._path("mim")
            s.r.save(mim)
            _state["MIMAS"].mim2reg(mim, path)
        else:
            s.r.write_reg(path)
        self.out.stats["oracle:ds9_decode"] += 1
        polys = decode_reg(path)
        got = set()
        total = 0
        for poly in polys:
            m = match_polygon(poly, s.maxdepth)
            if m is None:
                self._viol("reg-polygon", "a DS9 polygon is not the outline of any single HEALPix pixel up to depth %d: %s"
                           % (s.maxdepth, ["%.6f,%.6f" % v for v in poly]))
                raise _Stop()
            e = expand([m[1]], m[0], s.maxdepth)
            total += len(e)
            got |= e
        if got != s.model:
            self._viol("reg-content", "the DS9 polygons cover %d deepest-level pixels, the region has %d (missing %d, extra %d)"
                       % (len(got), len(s.model), len(s.model - got), len(got - s.model)))
            raise _Stop()
        if total != len(got):
            self.out.stats["probe:export_overlapping_cells"] += 1

    def op_mim_roundtrip(self):
        Region = _state["Region"]
        s = self._pick()
        path = self._path("mim")
        self.trace.append("#%d.save()+load()" % self.slots.index(s))
        s.r.save(path)
        r2 = Region.load(path)
        self.out.stats["oracle:mim_roundtrip"] += 1
        if r2.maxdepth != s.r.maxdepth:
            self._viol("mim-depth", "reloaded .mim has maxdepth %r, saved %r" % (r2.maxdepth, s.r.maxdepth))
            raise _Stop()
        # (only the public behaviour is compared -- depth, deepest-level pixel set, area, membership answers --, not
        #  the internal multi-resolution representation, which an implementation is free to normalise on load)
        probs = observe(Slot(r2, s.maxdepth, s.model), self.ch, probes=3)
        if probs:
            self._viol("mim-" + probs[0][0], "reloaded .mim: " + probs[0][1])
            raise _Stop()


class _Stop(Exception):
    pass


def run_history(ch, out, min_depth, max_depth, export_weight, max_ops=12):
    m = Machine(ch, out, min_depth, max_depth, export_weight)
    try:
        nops = 2 + ch.draw("nops", max_ops - 1)
        for _ in range(nops):
            if not m.step():
                break
        out.stats["runs"] += 1
        out.stats["ops"] += len(m.trace)
        out.sample = {"history": list(m.trace), "final_sizes": [len(s.model) for s in m.slots]}
        if len(m.trace) >= 2:
            out.fps.add(_hist_fp(m.trace))
        out.feed("|".join(m.trace))
        out.feed(str(sorted((s.maxdepth, len(s.model), sum(s.model) % 1000003) for s in m.slots)))
    finally:
        m.close()
    return m


def _hist_fp(trace):
    import hashlib
    shape = [re.sub(r"[-+]?\d+\.?\d*(e[-+]?\d+)?", "N", t) for t in trace]
    return hashlib.sha256("|".join(shape).encode()).hexdigest()[:16]


def shrink_hints(labels, values):
    """Structural candidates for the shrinker: drop one whole operation of the history (its draws, from its
    'op' draw up to the next one) and lower the drawn number of operations by one."""
    starts = [i for i, l in enumerate(labels) if l == "op"]
    try:
        inops = labels.index("nops")
    except ValueError:
        return
    # the first operation ('new') draws no 'op' label; operations after the last 'op' belong to it
    bounds = starts + [len(values)]
    for j in range(len(starts) - 1, -1, -1):
        a, b = bounds[j], bounds[j + 1]
        cand = values[:a] + values[b:]
        if values[inops] > 0:
            cand[inops] = values[inops] - 1
        yield cand
    # drop all probe draws' variety
    cand = [0 if l.startswith("probe_") else v for l, v in zip(labels, values)]
    if cand != values:
        yield cand


# ------------------------------------------------------------------------------------------
# bounded-exhaustive histories over a small alphabet (fixed cases of C08)
# ------------------------------------------------------------------------------------------
_CIRC = {"depth_arg": 0, "special_centre": 3, "whole_sky": 0}
ALPHABET = (
    ("add_circle", dict(_CIRC, slot=0, centre_i=0, radius_f=3)),                 # a  #0 += small circle at (0,0)
    ("add_circle", dict(slot=0, depth_arg=6, coarser_by=0, special_centre=3, centre_i=3, radius_f=2, whole_sky=0)),  # b coarser depth, RA wrap
    ("add_pixels", dict(slot=0, pix_at_maxdepth=0, pix_coarser=0, npixels=0, pix_base=9, pix_run=1)),   # c  coarse pixel, no renorm
    ("add_pixels_renorm", dict(slot=0, pix_at_maxdepth=1, npixels=5, pix_base=36, pix_run=1, pix_array=0)),  # d
    ("union", dict(slot_a=0, slot_b=0)),                                         # e  #0 |= #1 (same depth)
    ("union", dict(slot_a=0, slot_b=1)),                                         # f  #0 |= #2 (finer)
    ("union", dict(slot_a=2, slot_b=0)),                                         # g  #2 |= #0 (coarser)
    ("without", dict(slot_a=0)),                                                 # h  #0 -= #1
    ("intersect", dict(slot_a=0)),                                               # i
    ("symdiff", dict(slot_a=0)),                                                 # j
    ("q_get_demoted", dict(slot=0)),                                             # k
    ("q_sky_within", dict(slot=0, nq=2, degin=0)),                               # l
    ("q_get_area", dict(slot=0, area_deg=1)),                                    # m
    ("save_load", dict(slot=0, save_via=0)),                                     # n
    ("restart", dict()),                                                         # o
    ("alias", dict(slot=0, alias_op=0)),                                         # p  #0 |= #0
)
LETTERS = "abcdefghijklmnop"


def run_scripted(out, word, depth=3):
    """One history: a fixed three-region setup (#0, #1 of ``depth``, #2 one level finer) followed by the operations
    named by ``word`` (letters of ALPHABET), each with fixed arguments.  Returns the machine (violations in ``out``)."""
    from simkit.choices import Choices
    zero = Choices(replay=[])
    m = Machine(zero, out, depth, depth, 0)
    try:
        setup_script = (
            ("new", dict(depth=depth - m.min_depth)), ("new", dict(depth=depth - m.min_depth)),
            ("add_circle", dict(_CIRC, slot=0, centre_i=0, radius_f=4)),
            ("add_circle", dict(_CIRC, slot=1, centre_i=4, radius_f=4)),
            ("add_circle", dict(_CIRC, slot=1, centre_i=0, radius_f=2)),
        )
        for op, force in setup_script:
            m.ch = Choices(replay=[], force=force)
            if not m.step(op):
                return m
        Region = _state["Region"]
        m.slots.append(Slot(Region(maxdepth=depth + 1), depth + 1, set()))
        m.trace.append("new(maxdepth=%d)" % (depth + 1))
        m.ch = Choices(replay=[], force=dict(_CIRC, slot=2, centre_i=0, radius_f=5))
        if not m.step("add_circle"):
            return m
        for letter in word:
            op, force = ALPHABET[LETTERS.index(letter)]
            m.ch = Choices(replay=[], force=force)
            if not m.step(op):
                break
        out.stats["runs"] += 1
        out.stats["ops"] += len(m.trace)
        out.fps.add(_hist_fp(m.trace))
    finally:
        m.close()
    return m
