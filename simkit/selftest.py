"""Self-test of the simulated multiprocessing model against the real one on toy workloads.

Each scenario is a small function using only the Pool / Barrier API that BANE uses (get_context, Barrier, Pool with
initializer and maxtasksperchild, map_async(chunksize).get(timeout), close, join).  It is executed once under the kernel
with SimMP and once with real processes (fork); the observable outcome (returned value or exception type) must agree.
Run by `bin/check C07` as part of its extra step (thorough tier) and by `python -m simkit.selftest`."""
import multiprocessing
import sys
import threading

from .choices import Choices
from .kernel import Kernel
from .mp import SimMP

_BARRIER = None


def _init(b):
    global _BARRIER
    _BARRIER = b


def _square(x):
    return x * x


def _fail_on_2(x):
    if x == 2:
        raise ValueError("two")
    return x


def _wait_then_square(x):
    _BARRIER.wait()
    return x * x


def _fail_first_then_abort(x):
    if x == 0:
        _BARRIER.abort()
        raise KeyError("zero")
    try:
        _BARRIER.wait()
    except threading.BrokenBarrierError:
        raise KeyError("broken")          # same type as the first failure: which one arrives first is a race
    return x


def sc_map(mp):
    ctx = mp.get_context("fork")
    pool = ctx.Pool(processes=3, maxtasksperchild=1)
    r = pool.map_async(_square, range(7), chunksize=1).get(timeout=300)
    pool.close()
    pool.join()
    return r


def sc_map_chunks(mp):
    ctx = mp.get_context("fork")
    pool = ctx.Pool(processes=2)
    r = pool.map_async(_square, range(9), chunksize=4).get(timeout=300)
    pool.close()
    pool.join()
    return r


def sc_exception_first_wins(mp):
    ctx = mp.get_context("fork")
    pool = ctx.Pool(processes=2, maxtasksperchild=1)
    try:
        pool.map_async(_fail_on_2, range(5), chunksize=1).get(timeout=300)
    finally:
        pool.close()
        pool.join()


def sc_barrier(mp):
    ctx = mp.get_context("fork")
    b = ctx.Barrier(parties=3)
    pool = ctx.Pool(processes=3, maxtasksperchild=1, initializer=_init, initargs=(b,))
    r = pool.map_async(_wait_then_square, range(3), chunksize=1).get(timeout=300)
    pool.close()
    pool.join()
    return r


def sc_barrier_abort(mp):
    ctx = mp.get_context("fork")
    b = ctx.Barrier(parties=3)
    pool = ctx.Pool(processes=3, maxtasksperchild=1, initializer=_init, initargs=(b,))
    try:
        pool.map_async(_fail_first_then_abort, range(3), chunksize=1).get(timeout=300)
    finally:
        pool.close()
        pool.join()


def sc_timeout(mp):
    # two parties wait for a third that never comes: get() must raise multiprocessing.TimeoutError
    ctx = mp.get_context("fork")
    b = ctx.Barrier(parties=3)
    pool = ctx.Pool(processes=2, maxtasksperchild=1, initializer=_init, initargs=(b,))
    try:
        pool.map_async(_wait_then_square, range(2), chunksize=1).get(timeout=1.5)
    finally:
        pool.terminate()


class _TwoArgError(Exception):
    """pickles, cannot be un-pickled (constructor signature differs from the args it passes up)"""

    def __init__(self, a, b):
        super().__init__("%s %s" % (a, b))


def _raise_two_arg(x):
    raise _TwoArgError("a", "b")


def sc_unpicklable_on_load(mp):
    # the parent's result handler dies un-pickling the exception: the result never arrives
    ctx = mp.get_context("fork")
    pool = ctx.Pool(processes=2, maxtasksperchild=1)
    try:
        pool.map_async(_raise_two_arg, range(2), chunksize=1).get(timeout=3)
        outcome = "returned"
    except BaseException as e:      # noqa: BLE001
        outcome = "get raised " + type(e).__name__
    try:
        pool.terminate()            # (the real pool asserts that its result handler is alive here)
    except BaseException:           # noqa: BLE001
        pass
    return outcome


def sc_empty(mp):
    ctx = mp.get_context("fork")
    pool = ctx.Pool(processes=2)
    r = pool.map_async(_square, [], chunksize=1).get(timeout=300)
    pool.close()
    pool.join()
    return r


SCENARIOS = (sc_map, sc_map_chunks, sc_exception_first_wins, sc_barrier, sc_barrier_abort, sc_timeout, sc_unpicklable_on_load, sc_empty)


def _outcome(fn, mp):
    try:
        return ("returned", fn(mp))
    except BaseException as e:      # noqa: BLE001
        return ("raised", type(e).__name__)


def run_sim(fn, seed=0):
    ch = Choices(seed)
    k = Kernel(delay_fn=lambda t, s: (0.0, 1e-3, 0.1)[ch.draw("d", 3)], max_steps=20000, wall_cap_s=30)
    mp = SimMP(k, ncpu=4, pick=lambda n: ch.draw("pick", n))
    box = {}

    def main():
        box["r"] = _outcome(fn, mp)
    t = k.spawn("main", main)
    try:
        k.run(t)
    finally:
        k.shutdown()
    if "r" not in box:
        return ("no-result", "deadlock" if k.deadlocked else "stepcap")
    return box["r"]


def compare(seeds=6, verbose=False):
    """-> (number of scenarios, list of mismatch descriptions)"""
    bad = []
    quiet, threading.excepthook = threading.excepthook, (lambda args: None)   # the real pool's dying handler thread is expected
    try:
        reals = [(fn, _outcome(fn, multiprocessing)) for fn in SCENARIOS]
    finally:
        threading.excepthook = quiet
    for fn, real in reals:
        sims = set(repr(run_sim(fn, seed)) for seed in range(seeds))
        if sims != {repr(real)}:
            bad.append("%s: real %r, simulated %s" % (fn.__name__, real, sorted(sims)))
        if verbose:
            print("%-28s real=%-44s %s" % (fn.__name__, repr(real)[:44], "OK" if sims == {repr(real)} else "MISMATCH " + str(sorted(sims))))
    return len(SCENARIOS), bad


def main():
    n, bad = compare(verbose=True)
    return len(bad)


def _old_main():
    bad = 0
    for fn in SCENARIOS:
        real = _outcome(fn, multiprocessing)
        sims = set()
        for seed in range(6):
            sims.add(repr(run_sim(fn, seed)))
        ok = sims == {repr(real)}
        print("%-28s real=%-40s sim=%s %s" % (fn.__name__, repr(real)[:40], sorted(sims)[0][:40], "OK" if ok else "MISMATCH"))
        bad += 0 if ok else 1
    return bad


if __name__ == "__main__":
    sys.exit(1 if main() else 0)
