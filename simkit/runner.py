"""Batch runner, minimisation, replay files, known findings, determinism self-test, evidence.

A *check spec* is a module with:
  PROPERTY        property id
  ENGINE          engine name
  TIERS           {'quick': {'n': int, 'wall_cap_s': float, 'selftest': int}, 'thorough': {...}}
  case(ch)        -> Outcome; runs one simulated case, every decision drawn from ``ch``
  META            dict(rule=..., assumptions=[...], components={'real': [...], 'stub': [...]}, level=...)
  optional: prepare() (per process), fixed_cases() -> iterable of (name, decision list)

Exit codes: 0 property held on everything explored (KNOWN-FINDING lines allowed), 1 violation
(``VIOLATION property=<id> replay=<path>``), 2 harness error (never a verdict).
"""
import collections
import concurrent.futures
import hashlib
import importlib
import json
import multiprocessing
import os
import subprocess
import sys
import time
import traceback

from .choices import Choices
from .kernel import HarnessError, KernelStuck
from .shrink import shrink

VERIF = os.path.dirname(os.path.dirname(os.path.abspath(__file__)))
SEED_STRIDE = 1 << 32


class Outcome:
    def __init__(self):
        self.violations = []
        self.stats = collections.Counter()
        self.fps = set()
        self.states = set()
        self.maxima = {}
        self.trace = None          # human-readable schedule / fault / history trace of the failing run
        self.sample = None
        self._h = hashlib.sha256()
        self.sim_time = 0.0

    def violation(self, kind, message, **detail):
        self.violations.append({"kind": kind, "message": message, "detail": detail})
        self._h.update(("V:%s:%s" % (kind, json.dumps(detail, sort_keys=True, default=str))).encode())

    def maximum(self, name, value):
        if value > self.maxima.get(name, float("-inf")):
            self.maxima[name] = value

    def feed(self, text):
        self._h.update(str(text).encode())

    def digest(self):
        return self._h.hexdigest()


def signature(v):
    d = v.get("detail", {})
    sig = d.get("sig")
    return v["kind"] if sig is None else "%s/%s" % (v["kind"], sig)


def case_seed(base_seed, index):
    return int(base_seed) * SEED_STRIDE + int(index)


class FrozenOutcome:
    """An Outcome that crossed a process boundary."""

    def __init__(self, d):
        self.violations = d["violations"]
        self.stats = collections.Counter(d["stats"])
        self.fps = set(d["fps"])
        self.states = set(d["states"])
        self.sample = d["sample"]
        self.sim_time = d["sim_time"]
        self.maxima = d.get("maxima", {})
        self.trace = d.get("trace")
        self._digest = d["digest"]

    def digest(self):
        return self._digest


class FrozenChoices:
    def __init__(self, log):
        self.log = log

    def values(self):
        return [v for (_, _, v) in self.log]


def run_case(spec, seed=None, values=None, force=None):
    if getattr(spec, "ISOLATE", False):
        return _run_case_forked(spec, seed, values, force)
    ch = Choices(seed=seed, replay=values if (values is not None or force is None) else [], force=force)
    out = spec.case(ch)
    return out, ch


def _run_case_forked(spec, seed, values, force=None):
    """Run one case in a forked child, so that it starts from the process-global state of a fresh process
    (class attributes, module globals, caches) -- for properties that speak about fresh processes."""
    import pickle
    r, w = os.pipe()
    pid = os.fork()
    if pid == 0:
        code = 0
        try:
            os.close(r)
            ch = Choices(seed=seed, replay=values if (values is not None or force is None) else [], force=force)
            out = spec.case(ch)
            payload = pickle.dumps({"ok": True, "log": ch.log, "out": {
                "violations": out.violations, "stats": dict(out.stats), "fps": list(out.fps), "states": list(out.states),
                "sample": out.sample, "sim_time": out.sim_time, "digest": out.digest(), "maxima": out.maxima, "trace": getattr(out, "trace", None)}})
        except KernelStuck as e:
            payload = pickle.dumps({"ok": False, "stuck": str(e)})
            code = 4
        except BaseException:       # noqa: BLE001
            payload = pickle.dumps({"ok": False, "error": traceback.format_exc()})
            code = 3
        try:
            with os.fdopen(w, "wb") as f:
                f.write(payload)
            if hasattr(spec, "child_cleanup"):
                spec.child_cleanup()
        finally:
            os._exit(code)
    os.close(w)
    with os.fdopen(r, "rb") as f:
        data = f.read()
    os.waitpid(pid, 0)
    if not data:
        raise HarnessError("isolated case (seed %r) died without reporting" % (seed,))
    d = pickle.loads(data)
    if not d["ok"] and "stuck" in d:
        raise KernelStuck(d["stuck"])
    if not d["ok"]:
        raise HarnessError("isolated case (seed %r) failed in the harness:\n%s" % (seed, d["error"]))
    return FrozenOutcome(d["out"]), FrozenChoices(d["log"])


# ------------------------------------------------------------------------------------------------
# worker side
# ------------------------------------------------------------------------------------------------
def fixed_cases_of(spec, tier):
    """The fixed (enumerated) cases of a check; a check may make them depend on the tier."""
    if not hasattr(spec, "fixed_cases"):
        return []
    try:
        return list(spec.fixed_cases(tier))
    except TypeError:
        return list(spec.fixed_cases())


def _worker(spec_name, base_seed, indices, wall_deadline, want_digests, tier="quick", max_keep=40):
    import faulthandler
    faulthandler.enable()
    t0 = time.time()
    spec = importlib.import_module(spec_name)
    if hasattr(spec, "prepare"):
        spec.prepare()
    res = {"n": 0, "stats": collections.Counter(), "fps": set(), "states": set(), "violations": [],
           "samples": [], "digests": {}, "truncated": False, "sim_time": 0.0, "stuck": None,
           "nviol": 0, "sigs": collections.Counter(), "maxima": {}}
    fixed = fixed_cases_of(spec, tier)
    for idx in indices:
        if time.time() > wall_deadline:
            res["truncated"] = True
            break
        seed = case_seed(base_seed, idx)
        try:
            if idx < 0:
                # fixed (enumerated) case number -idx-1: all draws 0 except the forced ones
                out, ch = run_case(spec, force=fixed[-idx - 1])
                res["stats"]["fixed_cases"] += 1
            else:
                out, ch = run_case(spec, seed=seed)
        except KernelStuck as e:
            res["stuck"] = {"index": idx, "seed": seed, "message": str(e)}
            break
        res["n"] += 1
        res["stats"].update(out.stats)
        res["fps"].update(out.fps)
        res["states"].update(out.states)
        res["sim_time"] += out.sim_time
        for k_, v_ in getattr(out, "maxima", {}).items():
            if v_ > res["maxima"].get(k_, float("-inf")):
                res["maxima"][k_] = v_
        if idx in want_digests:
            res["digests"][idx] = out.digest()
        if out.sample is not None and len(res["samples"]) < 3:
            res["samples"].append({"seed": seed, "case": out.sample})
        if out.violations:
            res["nviol"] += 1
            v = out.violations[0]
            sig = signature(v)
            res["sigs"][sig] += 1
            if sum(1 for x in res["violations"] if x["sig"] == sig) < 2 and len(res["violations"]) < max_keep:
                res["violations"].append({"index": idx, "seed": seed, "sig": sig, "kind": v["kind"],
                                          "message": v["message"], "detail": v["detail"],
                                          "values": ch.values()})
    res["wall"] = time.time() - t0
    res["fps"] = list(res["fps"])
    res["states"] = list(res["states"])
    return res


def _shrink_one(spec_name, viol, budget_s):
    spec = importlib.import_module(spec_name)
    if hasattr(spec, "prepare"):
        spec.prepare()
    sig = viol["sig"]

    def test(values):
        try:
            out, ch = run_case(spec, values=values)
        except KernelStuck:
            return False, values
        ok = any(signature(v) == sig for v in out.violations[:1])
        return ok, ch.values()

    ok, norm = test(viol["values"])
    if not ok:
        return {"reproduced": False, "viol": viol}
    hints = None
    if hasattr(spec, "shrink_hints"):
        def hints(values):
            try:
                _, ch = run_case(spec, values=values)
            except KernelStuck:
                return []
            return spec.shrink_hints([l for (l, _, _) in ch.log], ch.values())
    small, info = shrink(norm, test, budget_s=budget_s, hints=hints)
    out, ch = run_case(spec, values=small)
    v = out.violations[0]
    return {"reproduced": True, "viol": viol, "values": ch.values(), "labels": [(l, n) for (l, n, _) in ch.log],
            "kind": v["kind"], "message": v["message"], "detail": v["detail"], "sig": signature(v),
            "digest": out.digest(), "shrink": info, "sample": out.sample, "trace": getattr(out, "trace", None)}


# ------------------------------------------------------------------------------------------------
# known findings
# ------------------------------------------------------------------------------------------------
def load_known(prop):
    path = os.path.join(VERIF, "known_findings.json")
    if not os.path.exists(path) or os.environ.get("VERIF_IGNORE_KNOWN"):
        return []      # (VERIF_IGNORE_KNOWN=1: used once to produce the replay file of an open finding)
    with open(path) as f:
        data = json.load(f)
    return [e for e in data.get("findings", []) if e.get("property") == prop]


def match_known(known, rep):
    for e in known:
        if e.get("status") != "open":
            continue
        m = e.get("match", {})
        flat = dict(rep.get("detail", {}))
        flat["kind"] = rep.get("kind")
        flat["sig"] = rep.get("sig")
        if all(str(flat.get(k)) == str(val) for k, val in m.items()):
            return e
    return None


# ------------------------------------------------------------------------------------------------
# replay files
# ------------------------------------------------------------------------------------------------
def write_replay(spec, rep, base_seed):
    os.makedirs(os.path.join(VERIF, "replays"), exist_ok=True)
    body = {
        "engine": getattr(spec, "ENGINE", "?"), "property": spec.PROPERTY, "spec": spec.__name__,
        "kind": rep["kind"], "sig": rep["sig"], "message": rep["message"], "detail": rep["detail"],
        "seed": rep["viol"]["seed"], "base_seed": base_seed, "index": rep["viol"]["index"],
        "decisions": rep["values"], "labels": rep["labels"], "digest": rep["digest"],
        "original_length": len(rep["viol"]["values"]), "shrink": rep["shrink"], "case": rep.get("sample"),
        "trace": rep.get("trace"),
        "replay_cmd": "bin/check %s --replay <this file>" % spec.PROPERTY,
    }
    h = hashlib.sha256(json.dumps(body["decisions"]).encode()).hexdigest()[:10]
    path = os.path.join(VERIF, "replays", "%s-%s-%s.json" % (spec.PROPERTY, rep["kind"], h))
    with open(path, "w") as f:
        json.dump(body, f, indent=1, default=str)
    return path


def do_replay(spec, path, quiet=False):
    with open(path) as f:
        body = json.load(f)
    if hasattr(spec, "prepare"):
        spec.prepare()
    out, ch = run_case(spec, values=body["decisions"])
    print("replay of %s: %d decisions, digest %s (recorded %s)"
          % (path, len(body["decisions"]), out.digest()[:16], str(body.get("digest"))[:16]))
    if out.violations:
        v = out.violations[0]
        print("  %s: %s" % (signature(v), v["message"]))
        tr = getattr(out, "trace", None)
        if isinstance(tr, dict):
            if tr.get("history"):
                print("  history: " + " ; ".join(map(str, tr["history"])))
            if tr.get("faults_fired"):
                print("  faults fired: %s" % tr["faults_fired"])
            if tr.get("events"):
                ev = tr["events"]
                print("  kernel event log (step virtual-time kind task what), last %d of %d events:" % (min(40, len(ev)), tr.get("events_total", len(ev))))
                for line in ev[-40:]:
                    print("    " + line)
        same = signature(v) == body.get("sig")
        print("  same violation class as recorded: %s; identical digest: %s"
              % (same, out.digest() == body.get("digest")))
        known = match_known(load_known(spec.PROPERTY),
                            {"kind": v["kind"], "sig": signature(v), "detail": v["detail"]})
        if known is not None:
            print("KNOWN-FINDING: property=%s %s" % (spec.PROPERTY, known.get("what", known.get("id"))))
            return 0
        print("VIOLATION property=%s replay=%s" % (spec.PROPERTY, path))
        return 1
    print("  no violation on this tree")
    return 0


# ------------------------------------------------------------------------------------------------
# main entry
# ------------------------------------------------------------------------------------------------
def _env_for_children():
    env = dict(os.environ)
    env.setdefault("OMP_NUM_THREADS", "1")
    env.setdefault("OPENBLAS_NUM_THREADS", "1")
    env["PYTHONDONTWRITEBYTECODE"] = "1"
    env["TQDM_DISABLE"] = "1"
    return env


def digests_cmd(spec, base_seed, indices):
    if hasattr(spec, "prepare"):
        spec.prepare()
    out = {}
    for idx in indices:
        o, _ = run_case(spec, seed=case_seed(base_seed, idx))
        out[str(idx)] = o.digest()
    print("DIGESTS " + json.dumps(out, sort_keys=True))
    return 0


def run_check(spec, tier, base_seed, nproc=None, n_override=None):
    t0 = time.time()
    prop = spec.PROPERTY
    cfg = dict(spec.TIERS[tier])
    n = int(n_override if n_override is not None else cfg["n"])
    nproc = int(nproc or os.environ.get("VERIF_NPROC") or min(16, os.cpu_count() or 1))
    nproc = max(1, min(nproc, n))
    wall_cap = float(cfg.get("wall_cap_s", 600))
    deadline = t0 + wall_cap
    nself = min(int(cfg.get("selftest", 16)), n)
    self_idx = set(range(0, n, max(1, n // nself))[:nself]) if nself else set()
    print("check %s tier=%s VERIF_SEED=%d cases=%d (decision seeds %d*2^32+[0,%d)) procs=%d"
          % (prop, tier, base_seed, n, base_seed, n, nproc), flush=True)

    ctx = multiprocessing.get_context("fork")
    merged = {"n": 0, "stats": collections.Counter(), "fps": set(), "states": set(), "violations": [],
              "samples": [], "digests": {}, "truncated": False, "sim_time": 0.0, "stuck": [],
              "nviol": 0, "sigs": collections.Counter(), "cpu_wall": 0.0, "maxima": {}}
    harness_errors = []
    with concurrent.futures.ProcessPoolExecutor(max_workers=nproc, mp_context=ctx) as ex:
        nfixed = len(fixed_cases_of(spec, tier))
        all_idx = [-(j + 1) for j in range(nfixed)] + list(range(n))
        futs = [ex.submit(_worker, spec.__name__, base_seed, all_idx[i::nproc], deadline, self_idx, tier)
                for i in range(nproc)]
        for fu in futs:
            try:
                r = fu.result(timeout=wall_cap + 300)
            except Exception as e:      # noqa: BLE001
                harness_errors.append("runner process failed: %s: %s" % (type(e).__name__, e))
                continue
            merged["n"] += r["n"]
            merged["stats"].update(r["stats"])
            merged["fps"].update(r["fps"])
            merged["states"].update(r["states"])
            merged["violations"].extend(r["violations"])
            merged["samples"].extend(r["samples"])
            merged["digests"].update(r["digests"])
            merged["truncated"] |= r["truncated"]
            merged["sim_time"] += r["sim_time"]
            merged["nviol"] += r["nviol"]
            merged["sigs"].update(r["sigs"])
            merged["cpu_wall"] += r["wall"]
            for k_, v_ in r.get("maxima", {}).items():
                if v_ > merged["maxima"].get(k_, float("-inf")):
                    merged["maxima"][k_] = v_
            if r["stuck"]:
                merged["stuck"].append(r["stuck"])
    batch_wall = time.time() - t0

    # ---- a task that never handed the baton back: real blocking call / endless loop under test
    stuck_reps = []
    for s in merged["stuck"]:
        stuck_reps.append(s)

    # ---- determinism self-test: same seeds again in-process and in a fresh interpreter
    selftest = {"seeds": len(self_idx), "inprocess_mismatch": 0, "fresh_mismatch": 0, "fresh_ran": False}
    if self_idx and not harness_errors:
        idxs = sorted(i for i in self_idx if i in merged["digests"])
        if hasattr(spec, "prepare"):
            spec.prepare()
        for idx in idxs[: max(4, len(idxs) // 2)]:
            try:
                o, _ = run_case(spec, seed=case_seed(base_seed, idx))
            except KernelStuck:
                continue
            if o.digest() != merged["digests"][idx]:
                selftest["inprocess_mismatch"] += 1
        env = _env_for_children()
        env["PYTHONHASHSEED"] = str(1 + (base_seed % 1000))
        cmd = [sys.executable, os.path.join(VERIF, "bin", "check"), prop, "--digests",
               ",".join(str(i) for i in idxs), "--seed", str(base_seed)]
        try:
            p = subprocess.run(cmd, env=env, capture_output=True, text=True, timeout=600)
            line = [l for l in p.stdout.splitlines() if l.startswith("DIGESTS ")]
            if p.returncode != 0 or not line:
                harness_errors.append("fresh-interpreter self-test failed to run: rc=%s %s"
                                      % (p.returncode, (p.stderr or "")[-400:]))
            else:
                fresh = json.loads(line[0][8:])
                selftest["fresh_ran"] = True
                for idx in idxs:
                    if fresh.get(str(idx)) != merged["digests"][idx]:
                        selftest["fresh_mismatch"] += 1
        except subprocess.TimeoutExpired:
            harness_errors.append("fresh-interpreter self-test timed out")
        if selftest["inprocess_mismatch"] or selftest["fresh_mismatch"]:
            harness_errors.append("determinism self-test: %d in-process and %d fresh-interpreter digest "
                                  "mismatches over %d seeds" % (selftest["inprocess_mismatch"],
                                                                selftest["fresh_mismatch"], len(idxs)))

    selftest_wall = time.time() - t0 - batch_wall
    # ---- check-specific extra step (e.g. model conformance against real processes)
    extra_info = None
    extra_viol = []
    if hasattr(spec, "extra") and not harness_errors:
        try:
            known0 = load_known(prop)
            suspect = any(match_known(known0, v) is None for v in merged["violations"])
            extra_viol, extra_herr, extra_info = spec.extra(tier, base_seed)
            if suspect and extra_herr:
                # the batch already found a violation on this tree: a disagreement between the simulated and the real
                # run is then more likely the same defect (e.g. schedule dependence) than a modelling error
                extra_info = dict(extra_info or {}, disagreements_on_a_violating_tree=extra_herr)
            else:
                harness_errors.extend(extra_herr)
        except Exception:       # noqa: BLE001
            harness_errors.append("extra step failed: %s" % traceback.format_exc()[-600:])
    # ---- minimise one representative per violation signature, write + verify replay files
    known = load_known(prop)
    by_sig = collections.OrderedDict()
    for v in sorted(merged["violations"], key=lambda x: x["index"]):
        by_sig.setdefault(v["sig"], v)
    reports = []
    max_groups = int(cfg.get("max_groups", 6))
    # a signature that is a listed open finding is reported as such without being minimised again (the shrinker
    # preserves the signature, which is all that the finding's matcher looks at)
    pre_known = []
    for sig, v in list(by_sig.items()):
        k = match_known(known, v)
        if k is not None:
            pre_known.append((k, {"viol": v, "sig": sig}))
            del by_sig[sig]
    groups = list(by_sig.values())[:max_groups]
    if groups:
        budget = float(cfg.get("shrink_budget_s", 45))
        with concurrent.futures.ProcessPoolExecutor(max_workers=min(len(groups), nproc), mp_context=ctx) as ex:
            futs = [ex.submit(_shrink_one, spec.__name__, v, budget) for v in groups]
            for fu in futs:
                try:
                    reports.append(fu.result(timeout=budget * 4 + 300))
                except Exception as e:      # noqa: BLE001
                    harness_errors.append("shrinker failed: %s: %s" % (type(e).__name__, e))
    new_violations = []
    known_hits = list(pre_known)
    for rep in reports:
        if not rep["reproduced"]:
            harness_errors.append("violation %s at seed %d did not reproduce when replayed from its decision "
                                  "list" % (rep["viol"]["sig"], rep["viol"]["seed"]))
            continue
        k = match_known(known, rep)
        if k is not None:
            known_hits.append((k, rep))
            continue
        path = write_replay(spec, rep, base_seed)
        env = _env_for_children()
        env["PYTHONHASHSEED"] = "4242"
        p = subprocess.run([sys.executable, os.path.join(VERIF, "bin", "check"), prop, "--replay", path],
                           env=env, capture_output=True, text=True, timeout=900)
        if p.returncode == 1 and ("VIOLATION property=%s" % prop) in p.stdout and "same violation class as recorded: True" in p.stdout:
            new_violations.append((rep, path))
        else:
            harness_errors.append("replay file %s did not reproduce in a fresh interpreter (rc=%s): %s"
                                  % (path, p.returncode, (p.stdout + p.stderr)[-500:]))
    # violations with signatures beyond max_groups are still violations
    unshrunk = [s for s in by_sig if s not in {g["sig"] for g in groups}]

    wall = time.time() - t0
    # ---- evidence
    meta = spec.META
    stats = merged["stats"]
    coverage = {
        # evaluations = simulated executions (a case consists of several runs / one history); cases are counted below
        "evaluations": int(stats.get("runs", 0)) or merged["n"],
        "cases": merged["n"],
        "distinct_nontrivial": len(merged["fps"]),
        "rule": meta["rule"],
        "samples": merged["samples"][:4] or [{"note": "no case completed"}],
        "simulated_runs": int(stats.get("runs", 0)),
        "runs_per_hour": round(stats.get("runs", 0) / max(wall, 1e-9) * 3600),
        "cases_per_hour": round(merged["n"] / max(wall, 1e-9) * 3600),
        "seed_range": [case_seed(base_seed, 0), case_seed(base_seed, max(0, n - 1))],
        "simulated_time_s": round(merged["sim_time"], 3),
        "kernel_steps": int(stats.get("kernel_steps", 0)),
        "context_switches": int(stats.get("switches", 0)),
        "fault_counts_fired": {k[6:]: v for k, v in sorted(stats.items()) if k.startswith("fault:")},
        "faults_armed_not_reached": int(stats.get("fault_unfired", 0)),
        "distinct_schedules": len(merged["fps"]) if meta.get("fp_is_schedule") else None,
        "distinct_states": len(merged["states"]) or None,
        "probes": {k[6:]: v for k, v in sorted(stats.items()) if k.startswith("probe:")},
        "oracle_evaluations": {k[7:]: v for k, v in sorted(stats.items()) if k.startswith("oracle:")},
        "other_counters": {k: v for k, v in sorted(stats.items())
                           if not k.startswith(("probe:", "fault:", "oracle:")) and k not in ("runs", "kernel_steps", "switches", "fault_unfired")},
        "components": meta["components"],
        "determinism_selftest": selftest,
        "truncated_by_wall_cap": bool(merged["truncated"]),
        "violating_cases": merged["nviol"],
        "violation_signatures": dict(merged["sigs"]),
        "known_findings_hit": [k.get("id") for k, _ in known_hits],
        "observed_maxima": {k: round(v, 6) for k, v in sorted(merged["maxima"].items())} or None,
        "extra_step": extra_info,
        "processes": nproc,
        "batch_wall_s": round(batch_wall, 2),
        "selftest_wall_s": round(selftest_wall, 2),
        "minimise_and_replay_wall_s": round(wall - batch_wall - selftest_wall, 2),
    }
    coverage = {k: v for k, v in coverage.items() if v is not None}
    evidence = {
        "property_id": prop, "tier": tier, "seed": int(base_seed), "level": meta.get("level", "exploration"),
        "coverage": coverage, "assumptions": meta["assumptions"], "wall_s": round(wall, 2),
        "violations": len(new_violations) + len(unshrunk) + len(stuck_reps) + len(extra_viol),
    }
    if not os.environ.get("VERIF_KEEP_EVIDENCE"):      # (set by bin/seed-run: runs against a deliberately broken tree)
        os.makedirs(os.path.join(VERIF, "evidence"), exist_ok=True)
        with open(os.path.join(VERIF, "evidence", "%s.json" % prop), "w") as f:
            json.dump(evidence, f, indent=1, default=str)

    # ---- report
    print("  %d cases, %d simulated runs, %d distinct fingerprints, %.0f s simulated, %.1f s wall (batch %.1f, "
          "self-test %.1f, minimise+replay %.1f)" % (merged["n"], stats.get("runs", 0), len(merged["fps"]),
                                                     merged["sim_time"], wall, batch_wall, selftest_wall,
                                                     wall - batch_wall - selftest_wall))
    print("  faults fired: %s" % coverage["fault_counts_fired"])
    print("  determinism self-test: %s" % selftest)
    for k, rep in known_hits:
        print("KNOWN-FINDING: property=%s %s [%s; %d case(s) in this batch; e.g. decision seed %d]"
              % (prop, k.get("what", ""), k.get("id"), merged["sigs"].get(rep["viol"]["sig"], 0), rep["viol"]["seed"]))
    rc = 0
    for rep, path in new_violations:
        print("  %s (seed %d, %d -> %d decisions): %s" % (rep["sig"], rep["viol"]["seed"],
              len(rep["viol"]["values"]), len(rep["values"]), rep["message"]))
        print("VIOLATION property=%s replay=%s" % (prop, path))
        rc = 1
    for ev in extra_viol:
        path = os.path.join(VERIF, "replays", "%s-%s-%s.json" % (prop, ev["kind"], hashlib.sha256(ev["message"].encode()).hexdigest()[:10]))
        os.makedirs(os.path.dirname(path), exist_ok=True)
        with open(path, "w") as f:
            json.dump({"property": prop, "spec": spec.__name__, "base_seed": base_seed, "tier": tier, **ev,
                       "replay_cmd": "bin/check %s --tier %s --seed %d (the extra step is deterministic in the seed)" % (prop, tier, base_seed)}, f, indent=1)
        print("  %s: %s" % (ev["kind"], ev["message"]))
        print("VIOLATION property=%s replay=%s" % (prop, path))
        rc = 1
    for s in unshrunk:
        print("  further violation signature not minimised in this batch: %s (%d cases)" % (s, merged["sigs"][s]))
        rc = 1
    for s in stuck_reps:
        path = os.path.join(VERIF, "replays", "%s-stuck-%d.json" % (prop, s["seed"]))
        os.makedirs(os.path.dirname(path), exist_ok=True)
        with open(path, "w") as f:
            json.dump({"property": prop, "kind": "real-block", "seed": s["seed"], "message": s["message"],
                       "spec": spec.__name__, "replay_cmd": "bin/check %s --seed-case %d" % (prop, s["seed"])}, f, indent=1)
        print("  code under test blocked for real (outside the simulator) or never yielded: %s" % s["message"])
        print("VIOLATION property=%s replay=%s" % (prop, path))
        rc = 1
    if harness_errors:
        for h in harness_errors:
            print("HARNESS-ERROR: %s" % h)
        return 2
    if rc == 0:
        print("OK property=%s held on everything explored" % prop)
    return rc


def main(spec, argv=None):
    import argparse
    ap = argparse.ArgumentParser()
    ap.add_argument("--tier", default=os.environ.get("VERIF_TIER", "quick"), choices=["quick", "thorough"])
    ap.add_argument("--seed", type=int, default=int(os.environ.get("VERIF_SEED", "0") or 0))
    ap.add_argument("--replay")
    ap.add_argument("--digests")
    ap.add_argument("--n", type=int)
    ap.add_argument("--procs", type=int)
    ap.add_argument("--seed-case", type=int, help="run one case from a full decision seed and print it")
    a = ap.parse_args(argv)
    try:
        if a.replay:
            return do_replay(spec, a.replay)
        if a.digests:
            return digests_cmd(spec, a.seed, [int(x) for x in a.digests.split(",") if x])
        if a.seed_case is not None:
            if hasattr(spec, "prepare"):
                spec.prepare()
            out, ch = run_case(spec, seed=a.seed_case)
            print(json.dumps({"sample": out.sample, "violations": out.violations, "stats": out.stats,
                              "decisions": len(ch.log)}, indent=1, default=str))
            return 1 if out.violations else 0
        return run_check(spec, a.tier, a.seed, a.procs, a.n)
    except HarnessError as e:
        print("HARNESS-ERROR: %s" % e)
        return 2
    except Exception:       # noqa: BLE001
        print("HARNESS-ERROR: unexpected exception in the harness\n%s" % traceback.format_exc())
        return 2
