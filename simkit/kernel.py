"""Baton-passing kernel: cooperative tasks on real threads, virtual clock, discrete events.

Exactly one thread executes code under test at any instant.  A *task* is a real
Python thread that runs only while it holds the baton; the kernel (the thread that
called ``Kernel.run``) pops the next event ordered by (virtual time, sequence number),
hands the baton to that task and waits until it yields, blocks or ends.  *Who* runs is
therefore always the kernel's decision, and that decision is a function of the
decision stream only (through the virtual delays that the ``delay_fn`` draws), so one
seed is one exactly repeatable execution.

When nothing is runnable the clock jumps to the earliest pending timer (a blocked task
with a deadline); the time skipped is accounted as ``rescue_time``.  When nothing is
runnable and no timer is pending the run is deadlocked.
"""
import _thread
import hashlib
import sys
import threading

READY, RUNNING, BLOCKED, DONE = "READY", "RUNNING", "BLOCKED", "DONE"


class SimKilled(BaseException):
    """Raised inside a task to unwind it (end of run / teardown).  Not an Exception, so
    ``except Exception`` handlers in the code under test do not see it."""


class KernelStuck(RuntimeError):
    """A task did not hand the baton back within the wall-clock cap: some code made a real
    blocking call (or loops forever) while holding the baton."""


class HarnessError(RuntimeError):
    """Something is wrong with the harness or its model (never a property violation)."""


class Task:
    def __init__(self, kernel, name, fn, args, kwargs):
        self.kernel = kernel
        self.name = name
        self.fn = fn
        self.args = args
        self.kwargs = kwargs
        self.state = READY
        self.wake = 0.0
        self.seq = 0
        self.deadline = None
        self.timed_out = False
        self.blocked_on = None
        self.result = None
        self.exc = None
        self.killed = False        # unwound by SimKilled
        self.dead = False          # "process died" fault: parked until teardown
        self.pending_exc = None    # raised in the task when it next gets the baton
        self.nyield = 0            # yield points taken (fault addressing)
        self.nline = 0             # traced line events seen (fault addressing)
        self.seen_lines = set()
        self.on_done = []          # callbacks(task), run with the baton when the task ends/dies
        self.tags = {}
        self.finished = False      # the thread has handed the baton back for the last time
        self._go = _thread.allocate_lock()
        self._go.acquire()
        self.thread = threading.Thread(target=self._boot, name="sim-" + name, daemon=True)

    def __repr__(self):
        return "<Task %s %s>" % (self.name, self.state)

    def _boot(self):
        k = self.kernel
        self._go.acquire()
        try:
            if k.teardown:
                self.killed = True
                return
            if k.trace_files:
                sys.settrace(k._global_tracer)
            self.result = self.fn(*self.args, **self.kwargs)
        except SimKilled:
            self.killed = True
        except BaseException as e:     # noqa: BLE001 - recorded, reported by the engine
            self.exc = e
        finally:
            sys.settrace(None)
            self.state = DONE
            if not k.teardown:
                k._log("end", self, "killed" if self.killed else ("exc:" + type(self.exc).__name__ if self.exc else "ok"))
                for cb in list(self.on_done):
                    try:
                        cb(self)
                    except SimKilled:
                        pass
            self.finished = True
            k._back.release()


class Kernel:
    def __init__(self, delay_fn=None, max_steps=200000, wall_cap_s=60.0, keep_log=400):
        self.now = 0.0
        self.tasks = []
        self.current = None
        self.teardown = False
        self.delay_fn = delay_fn or (lambda task, site: 0.0)
        self.fault_fn = None            # fault_fn(task, site) -> None | ("exc", e) | ("kill",) | ("stall", secs)
        self.line_fn = None             # line_fn(task, frame) -> None | "yield" | ("exc", e)
        self.block_fault_fn = None      # block_fault_fn(task, label) -> True: the task's process dies while blocked
        self.trace_files = ()           # filenames whose frames get line events
        self.trace_skip_names = ("box", "sigmaclip")
        self.max_steps = max_steps
        self.wall_cap_s = wall_cap_s
        self.steps = 0
        self.switches = 0
        self.total_delay = 0.0          # sum of all injected virtual delays
        self.rescue_time = 0.0          # virtual time skipped because only a timer could make progress
        self.rescues = []               # [(task name, waited-on label, skipped seconds)]
        self.deadlocked = False
        self.step_capped = False
        self.blocked_at_end = []
        self._seq = 0
        self._back = _thread.allocate_lock()
        self._back.acquire()
        self._hash = hashlib.sha256()
        self._sched = hashlib.sha256()
        self.keep_log = keep_log
        self.log = []
        self.nlog = 0
        self.sites_seen = {}

    # ------------------------------------------------------------------ logging
    def _log(self, kind, task, what=""):
        line = "%d %.9g %s %s %s" % (self.steps, self.now, kind, task.name if task else "-", what)
        self._hash.update(line.encode())
        self._hash.update(b"\n")
        self.nlog += 1
        if len(self.log) < self.keep_log:
            self.log.append(line)

    def note(self, what):
        """Record a harness-level event in the event log (e.g. output digests)."""
        self._log("note", self.current, what)

    def digest(self):
        return self._hash.hexdigest()

    def schedule_fingerprint(self):
        return self._sched.hexdigest()[:16]

    # ------------------------------------------------------------------ tasks
    def spawn(self, name, fn, *args, **kwargs):
        t = Task(self, name, fn, args, kwargs)
        self._seq += 1
        t.seq = self._seq
        t.wake = self.now + self._delay(t, "spawn")
        self.tasks.append(t)
        t.thread.start()
        self._log("spawn", t, "")
        return t

    def _delay(self, task, site):
        d = float(self.delay_fn(task, site))
        if d < 0:
            d = 0.0
        self.total_delay += d
        return d

    # ------------------------------------------------------------------ called from task threads
    def in_task(self):
        return self.current is not None and threading.current_thread() is self.current.thread

    def _switch_out(self, t):
        self.current = None
        self._back.release()
        t._go.acquire()
        if self.teardown:
            raise SimKilled()
        self.current = t
        t.state = RUNNING
        if t.pending_exc is not None:
            e, t.pending_exc = t.pending_exc, None
            raise e

    def yield_point(self, site):
        """A pre-emption / fault point.  No-op when not called from the running task."""
        if self.teardown:
            if threading.current_thread().name.startswith("sim-"):
                raise SimKilled()
            return
        t = self.current
        if t is None or threading.current_thread() is not t.thread:
            return
        t.nyield += 1
        self.sites_seen[site] = self.sites_seen.get(site, 0) + 1
        act = self.fault_fn(t, site) if self.fault_fn is not None else None
        extra = 0.0
        if act is not None:
            if act[0] == "kill":
                self._die(t, site)          # never returns normally
            elif act[0] == "stall":
                extra = float(act[1])
                self.total_delay += extra
                self._log("fault", t, "stall %g @%s" % (extra, site))
            elif act[0] == "exc":
                self._log("fault", t, "exc %s @%s" % (type(act[1]).__name__, site))
                t.pending_exc = act[1]
        self._log("y", t, site)
        self._seq += 1
        t.seq = self._seq
        t.state = READY
        t.wake = self.now + self._delay(t, site) + extra
        self._switch_out(t)

    def _die(self, t, site):
        """The task's process dies on the spot: no handler of the code under test runs now.
        (The thread is parked; it is unwound during teardown, when every simulated
        primitive refuses to do anything.)"""
        self._log("fault", t, "kill @%s" % site)
        t.dead = True
        t.state = DONE
        for cb in list(t.on_done):
            cb(t)
        t.on_done = []
        self.current = None
        self._back.release()
        t._go.acquire()
        raise SimKilled()

    def block(self, obj, timeout=None, label=None):
        """Block the running task on ``obj`` (any object; only used for reporting) until
        ``wake`` is called for it or the virtual timeout expires.  Returns True on timeout."""
        if self.teardown:
            raise SimKilled()
        t = self.current
        if t is None or threading.current_thread() is not t.thread:
            raise HarnessError("block() called outside a simulated task")
        t.state = BLOCKED
        t.blocked_on = label or getattr(obj, "label", type(obj).__name__)
        t.timed_out = False
        t.deadline = None if timeout is None else self.now + max(0.0, float(timeout))
        self._seq += 1
        t.seq = self._seq
        self._log("b", t, t.blocked_on)
        if self.block_fault_fn is not None and self.block_fault_fn(t, t.blocked_on):
            # the process dies while it sleeps on the primitive (it stays in the wait set as a dead entry, which
            # every simulated primitive skips)
            self._log("fault", t, "kill while blocked @%s" % t.blocked_on)
            t.dead = True
            t.state = DONE
            for cb in list(t.on_done):
                cb(t)
            t.on_done = []
            self.current = None
            self._back.release()
            t._go.acquire()
            raise SimKilled()
        self._switch_out(t)
        t.blocked_on = None
        return t.timed_out

    def wake(self, task, site="wake"):
        if task.state == BLOCKED and not task.dead:
            task.state = READY
            task.deadline = None
            self._seq += 1
            task.seq = self._seq
            task.wake = self.now + self._delay(task, site)
            self._log("w", task, "")

    def interrupt(self, task, exc):
        """Deliver an asynchronous exception to a blocked or ready task (e.g. SIGINT)."""
        if task.state in (BLOCKED, READY) and not task.dead:
            task.pending_exc = exc
            if task.state == BLOCKED:
                task.state = READY
                task.deadline = None
                self._seq += 1
                task.seq = self._seq
                task.wake = self.now
            self._log("int", task, type(exc).__name__)
            return True
        return False

    # ------------------------------------------------------------------ tracing
    def _global_tracer(self, frame, event, arg):
        if event == "call":
            code = frame.f_code
            if code.co_filename in self.trace_files and code.co_name not in self.trace_skip_names:
                return self._line_tracer
        return None

    def _line_tracer(self, frame, event, arg):
        if event == "line" and not self.teardown:
            t = self.current
            if t is not None and threading.current_thread() is t.thread and self.line_fn is not None:
                t.nline += 1
                act = self.line_fn(t, frame)
                if act is not None:
                    if act == "yield":
                        self.yield_point("L%d" % frame.f_lineno)
                    elif act[0] == "exc":
                        self._log("fault", t, "exc %s @L%d" % (type(act[1]).__name__, frame.f_lineno))
                        raise act[1]
                    elif act[0] == "kill":
                        self._die(t, "L%d" % frame.f_lineno)
        return self._line_tracer

    # ------------------------------------------------------------------ the loop
    def run(self, main_task):
        """Run until ``main_task`` is DONE, the system deadlocks, or the step cap is hit.
        Always follow with ``shutdown()``."""
        while True:
            if main_task.state == DONE:
                break
            if self.steps >= self.max_steps:
                self.step_capped = True
                break
            best = None
            bestkey = None
            any_ready = False
            for t in self.tasks:
                if t.state == READY:
                    key = (t.wake, 0, t.seq)
                    any_ready = True
                elif t.state == BLOCKED and t.deadline is not None and not t.dead:
                    key = (t.deadline, 1, t.seq)
                else:
                    continue
                if bestkey is None or key < bestkey:
                    best, bestkey = t, key
            if best is None:
                self.deadlocked = True
                self.blocked_at_end = [(t.name, t.blocked_on) for t in self.tasks if t.state == BLOCKED]
                self._log("deadlock", None, ";".join("%s@%s" % x for x in self.blocked_at_end))
                break
            self.steps += 1
            if best.state == BLOCKED:
                # a timer fires
                skipped = max(0.0, best.deadline - self.now)
                if not any_ready:
                    self.rescue_time += skipped
                    self.rescues.append((best.name, best.blocked_on, skipped))
                self.now = max(self.now, best.deadline)
                best.timed_out = True
                best.deadline = None
                best.state = READY
                best.wake = self.now
                self._log("timer", best, "%g" % skipped)
                continue
            if best.wake > self.now:
                self.now = best.wake
            self._run_task(best)
        return self

    def _run_task(self, t):
        self.switches += 1
        self._sched.update(("%s:%s|" % (t.name, t.nyield)).encode())
        t.state = RUNNING
        self.current = t
        t._go.release()
        if not self._back.acquire(timeout=self.wall_cap_s):
            raise KernelStuck("task %s did not hand the baton back within %.0f s of wall time"
                              % (t.name, self.wall_cap_s))
        self.current = None

    def shutdown(self):
        """Unwind every task that is still alive (SimKilled at its parking point)."""
        self.teardown = True
        self.current = None
        for t in self.tasks:
            if not t.finished:
                t._go.release()
                if not self._back.acquire(timeout=self.wall_cap_s):
                    raise KernelStuck("task %s did not unwind during teardown" % t.name)
        for t in self.tasks:
            t.thread.join(timeout=self.wall_cap_s)
            if t.thread.is_alive():
                raise KernelStuck("thread of task %s still alive after teardown" % t.name)
