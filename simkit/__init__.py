"""simkit -- a small deterministic-simulation kit (decision stream, baton-passing
kernel with a virtual clock, simulated synchronisation primitives, shrinker, runner).
See /verif/DESIGN.md section 2."""
