"""The decision stream: one integer seed decides everything.

Every decision of a simulated run -- generated configuration, image content seed,
virtual delays (hence who runs next), which fault fires where, which operation a
history machine applies -- is ``Choices.draw(label, n) -> int in [0, n)``.
Every draw is appended to ``log``.  In replay mode the recorded values are fed
back (``value % n``; 0 once the list is exhausted) so a run is a pure function of
(decision list, code).  Nothing in here reads a clock or any other source of
nondeterminism, and logging never draws.
"""
import random


class Choices:
    __slots__ = ("seed", "_rng", "_replay", "pos", "log", "overrun", "_force")

    def __init__(self, seed=None, replay=None, force=None):
        """``force``: {label: value} -- draws with these labels return the given value (used to build the fixed,
        enumerated cases of a check; the forced values are logged like any other, so the recorded decision list
        replays without ``force``)."""
        self._force = dict(force) if force else None
        self.seed = seed
        self._replay = None if replay is None else list(replay)
        self._rng = random.Random(seed) if replay is None else None
        self.pos = 0
        self.log = []          # [(label, n, value)]
        self.overrun = 0       # draws past the end of a replay list

    # -- primitive -----------------------------------------------------------
    def draw(self, label, n):
        """An integer in [0, n).  0 is always the 'simplest' value."""
        n = int(n)
        if n <= 1:
            return 0
        if self._force is not None and label in self._force:
            v = int(self._force[label]) % n
        elif self._replay is not None:
            if self.pos < len(self._replay):
                v = int(self._replay[self.pos]) % n
            else:
                v = 0
                self.overrun += 1
        else:
            v = self._rng.randrange(n)
        self.pos += 1
        self.log.append((label, n, v))
        return v

    # -- conveniences (all built on draw) ------------------------------------
    def chance(self, label, num, den):
        """True with probability num/den; value 0 (the shrink target) is False."""
        return self.draw(label, den) >= den - num

    def pick(self, label, seq):
        return seq[self.draw(label, len(seq))]

    def weighted(self, label, weights):
        """Index i with probability weights[i]/sum; index 0 is the shrink target."""
        tot = int(sum(weights))
        v = self.draw(label, tot)
        acc = 0
        for i, w in enumerate(weights):
            acc += w
            if v < acc:
                return i
        return len(weights) - 1

    def intrange(self, label, lo, hi):
        """Integer in [lo, hi]."""
        return lo + self.draw(label, hi - lo + 1)

    def values(self):
        return [v for (_, _, v) in self.log]
