"""Simulated ``multiprocessing``: context, Barrier, Pool (processes -> kernel tasks) and a
sandboxed name space under the *production* ``SharedMemory`` class.

Pool model, written from CPython 3.12 ``multiprocessing/pool.py``:

* ``Pool(processes, initializer, initargs, maxtasksperchild)`` starts ``processes``
  workers.  A worker runs ``initializer(*initargs)``, then repeatedly takes one task
  (= one chunk) from a FIFO queue, runs it, reports ``(True, value)`` or
  ``(False, exc)`` -- only ``Exception`` is caught -- and exits after
  ``maxtasksperchild`` tasks.
* worker exit is noticed through the process sentinels; a replacement is started (after a
  virtual delay) while the pool is running or results are outstanding.  A worker that dies
  holding a task is replaced, but its task is never re-queued and never reported.
* ``map_async`` splits the iterable into chunks; its result becomes ready only when
  *all* chunks have reported, keeping the first exception; ``get(timeout)`` raises
  ``multiprocessing.TimeoutError`` at the deadline.
* ``close()`` lets idle workers exit once no results are outstanding, ``join()`` waits
  for them, ``terminate()`` kills them.  A pool that is dropped is terminated when the
  run ends (the kernel unwinds left-over tasks).
"""
import collections
import importlib.util
import multiprocessing as _real_mp
import multiprocessing.shared_memory as _real_shm
import os

from .kernel import HarnessError, SimKilled
from .primitives import SimBarrier, SimCondition, SimEvent, SimLock

RUN, CLOSE, TERMINATE = "RUN", "CLOSE", "TERMINATE"
_ABSENT = object()


class SimAsyncResult:
    def __init__(self, pool, njobs, chunksize, length, single=False):
        self._pool = pool
        self._event = SimEvent(pool.k, "result")
        self._success = True
        self._single = single
        self._chunksize = chunksize
        self._number_left = njobs
        self._value = [None] * length
        if njobs == 0:
            self._event.set()
        else:
            pool.cache[id(self)] = self

    def ready(self):
        return self._event.is_set()

    def successful(self):
        if not self.ready():
            raise ValueError("%r not ready" % self)
        return self._success

    def wait(self, timeout=None):
        self._event.wait(timeout)

    def get(self, timeout=None):
        self._pool.k.yield_point("P:get")
        self.wait(timeout)
        if not self.ready():
            raise _real_mp.TimeoutError
        if self._success:
            return self._value[0] if self._single else self._value
        raise self._value

    def _set(self, i, success_result):
        # CPython MapResult._set
        self._number_left -= 1
        success, result = success_result
        if success and self._success:
            self._value[i * self._chunksize:(i + 1) * self._chunksize] = result
        elif not success and self._success:
            self._success = False
            self._value = result
        if self._number_left == 0:
            self._pool.cache.pop(id(self), None)
            self._event.set()
            self._pool._maybe_shutdown_workers()


class SimPool:
    def __init__(self, sim, processes=None, initializer=None, initargs=(), maxtasksperchild=None):
        self.sim = sim
        self.k = sim.k
        if processes is None:
            processes = sim.cpu_count()
        if processes < 1:
            raise ValueError("Number of processes must be at least 1")
        if maxtasksperchild is not None:
            if not isinstance(maxtasksperchild, int) or maxtasksperchild <= 0:
                raise ValueError("maxtasksperchild must be a positive int or None")
        if initializer is not None and not callable(initializer):
            raise TypeError("initializer must be a callable")
        self.processes = processes
        self.initializer = initializer
        self.initargs = initargs
        self.maxtasks = maxtasksperchild
        self.state = RUN
        self.queue = collections.deque()
        self.qwaiters = []
        self.shutdown_workers = False
        self.cache = {}
        self.workers = []          # live worker tasks
        self.all_workers = []
        self.joiners = []
        self.map_calls = []        # [(func, items, chunksize)] as observed
        self.lost_tasks = 0
        self.result_handler_dead = False
        sim.pools.append(self)
        for _ in range(processes):
            self._spawn_worker()

    # -------------------------------------------------------------- workers
    def _spawn_worker(self):
        n = self.sim.next_worker_id()
        t = self.k.spawn("w%d" % n, self._worker_main)
        t.tags["pool"] = self
        t.tags["holding"] = None
        t.on_done.append(self._worker_gone)
        self.workers.append(t)
        self.all_workers.append(t)
        return t

    def _worker_main(self):
        k = self.k
        me = k.current
        k.yield_point("W:start")
        if self.initializer is not None:
            # module globals that the pool initializer assigns are worker-process state: in production they exist only
            # in the (short-lived) worker processes and never in the parent.  They are recorded so that the engine can
            # put the parent's values back when the call is over.
            g = getattr(self.initializer, "__globals__", None)
            before = dict(g) if g is not None else None
            self.initializer(*self.initargs)
            if before is not None:
                for name, val in g.items():
                    if name not in before or before[name] is not val:
                        key = (id(g), name)
                        if key not in self.sim.worker_side_globals:
                            self.sim.worker_side_globals[key] = (g, name, before.get(name, _ABSENT))
        completed = 0
        while self.maxtasks is None or completed < self.maxtasks:
            task = self._get_task()
            if task is None:
                break
            res, i, func, chunk = task
            me.tags["holding"] = (res, i)
            me.tags["in_func"] = True
            try:
                value = (True, [func(x) for x in chunk])
            except Exception as e:      # noqa: BLE001 - exactly what pool.worker catches
                value = (False, e)
            me.tags["in_func"] = False
            k.yield_point("W:report")
            me.tags["holding"] = None
            self._deliver(res, i, value)
            completed += 1
        k.yield_point("W:exit")

    def _deliver(self, res, i, value):
        """The result travels through a pipe: pickled by the worker (a failure to pickle is itself reported, as
        multiprocessing.pool.MaybeEncodingError), un-pickled by the pool's result-handler thread in the parent.  An
        exception while un-pickling kills that thread (CPython only guards against OSError/EOFError there): this and
        every later result is lost."""
        import pickle
        from multiprocessing.pool import MaybeEncodingError
        try:
            blob = pickle.dumps(value)
        except Exception as e:      # noqa: BLE001
            blob = pickle.dumps((False, MaybeEncodingError(e, value[1])))
            self.k._log("pool", self.k.current, "result not picklable: %s" % type(e).__name__)
        if self.result_handler_dead:
            return
        try:
            value = pickle.loads(blob)
        except Exception as e:      # noqa: BLE001
            self.result_handler_dead = True
            self.k._log("pool", self.k.current, "result handler died un-pickling a result: %s" % type(e).__name__)
            return
        res._set(i, value)

    def _get_task(self):
        k = self.k
        me = k.current
        k.yield_point("W:get")
        while True:
            if self.state == TERMINATE:
                return None
            if self.queue:
                return self.queue.popleft()
            if self.shutdown_workers:
                return None
            self.qwaiters.append(me)
            k.block(self, None, "pool.queue")
            if me in self.qwaiters:
                self.qwaiters.remove(me)

    def _worker_gone(self, t):
        # the worker handler notices the exit through the sentinel
        if t in self.workers:
            self.workers.remove(t)
        if t.tags.get("holding") is not None:
            self.lost_tasks += 1
        if self.state == RUN or (self.cache and self.state != TERMINATE):
            while len(self.workers) < self.processes:
                self._spawn_worker()
        self._maybe_shutdown_workers()
        if not self.workers:
            for j in list(self.joiners):
                self.k.wake(j, "pool:joined")

    def _maybe_shutdown_workers(self):
        if self.state == CLOSE and not self.cache and not self.shutdown_workers:
            self.shutdown_workers = True
            for w in list(self.qwaiters):
                self.qwaiters.remove(w)
                self.k.wake(w, "pool:sentinel")

    # -------------------------------------------------------------- API
    def _check_running(self):
        if self.state != RUN:
            raise ValueError("Pool not running")

    def map_async(self, func, iterable, chunksize=None, callback=None, error_callback=None):
        self._check_running()
        self.k.yield_point("P:map_async")
        items = list(iterable)
        if chunksize is None:
            chunksize, extra = divmod(len(items), self.processes * 4)
            if extra:
                chunksize += 1
        if len(items) == 0:
            chunksize = 0
        self.map_calls.append((func, items, chunksize))
        chunks = [items[i:i + chunksize] for i in range(0, len(items), chunksize)] if chunksize else []
        res = SimAsyncResult(self, len(chunks), chunksize, len(items))
        for i, chunk in enumerate(chunks):
            self.queue.append((res, i, func, chunk))
        for w in list(self.qwaiters):
            self.qwaiters.remove(w)
            self.k.wake(w, "pool:task")
        return res

    def map(self, func, iterable, chunksize=None):
        return self.map_async(func, iterable, chunksize).get()

    def apply_async(self, func, args=(), kwds=None, callback=None, error_callback=None):
        self._check_running()
        kwds = kwds or {}
        self.k.yield_point("P:apply_async")
        res = SimAsyncResult(self, 1, 1, 1, single=True)
        self.queue.append((res, 0, lambda a: func(*a, **kwds), [args]))
        for w in list(self.qwaiters):
            self.qwaiters.remove(w)
            self.k.wake(w, "pool:task")
        return res

    def apply(self, func, args=(), kwds=None):
        return self.apply_async(func, args, kwds).get()

    def starmap_async(self, func, iterable, chunksize=None, callback=None, error_callback=None):
        return self.map_async(lambda a: func(*a), iterable, chunksize)

    def starmap(self, func, iterable, chunksize=None):
        return self.starmap_async(func, iterable, chunksize).get()

    def imap(self, func, iterable, chunksize=1):
        return iter(self.map(func, iterable, chunksize))

    imap_unordered = imap

    def close(self):
        self.k.yield_point("P:close")
        if self.state == RUN:
            self.state = CLOSE
            self._maybe_shutdown_workers()

    def terminate(self):
        self.k.yield_point("P:terminate")
        self.state = TERMINATE
        for w in list(self.workers):
            if w is not self.k.current and w.state != "DONE":
                w.dead = True
                w.state = "DONE"
                self.k._log("terminated", w, "")
        self.workers = []
        for j in list(self.joiners):
            self.k.wake(j, "pool:joined")

    def join(self):
        self.k.yield_point("P:join")
        if self.state == RUN:
            raise ValueError("Pool is still running")
        me = self.k.current
        while self.workers:
            self.joiners.append(me)
            self.k.block(self, None, "pool.join")
            if me in self.joiners:
                self.joiners.remove(me)

    def __enter__(self):
        self._check_running()
        return self

    def __exit__(self, *a):
        self.terminate()


class SimContext:
    def __init__(self, sim, method):
        self.sim = sim
        self._method = method

    def get_start_method(self, allow_none=False):
        return self._method

    def get_context(self, method=None):
        return self.sim.get_context(method)

    def cpu_count(self):
        return self.sim.cpu_count()

    def Barrier(self, parties, action=None, timeout=None):
        b = SimBarrier(self.sim.k, parties, action, timeout,
                       label="barrier%d" % len(self.sim.barriers), pick=self.sim.pick)
        self.sim.barriers.append(b)
        return b

    def Pool(self, processes=None, initializer=None, initargs=(), maxtasksperchild=None):
        err = self.sim.pool_start_error
        if err is not None:
            # the operating system refuses to start the worker processes (fork: EAGAIN / ENOMEM): Pool.__init__
            # terminates whatever it had started and re-raises
            self.sim.pool_start_error = None
            self.sim.pool_start_fired = True
            self.sim.k.yield_point("P:start-failed")
            raise err
        return SimPool(self.sim, processes, initializer, initargs, maxtasksperchild)

    def Lock(self):
        return SimLock(self.sim.k, "mp.lock%d" % self.sim.next_id(), self.sim.pick)

    RLock = Lock

    def Event(self):
        return SimEvent(self.sim.k, "mp.event%d" % self.sim.next_id())

    def Condition(self, lock=None):
        return SimCondition(self.sim.k, lock, "mp.cond%d" % self.sim.next_id())

    def __getattr__(self, name):
        raise HarnessError("simulated multiprocessing context has no model for %r" % name)


class SimMP:
    """Stands in for the ``multiprocessing`` module object."""
    TimeoutError = _real_mp.TimeoutError
    ProcessError = _real_mp.ProcessError
    BufferTooShort = _real_mp.BufferTooShort
    AuthenticationError = _real_mp.AuthenticationError

    def __init__(self, kernel, ncpu=16, pick=None):
        self.k = kernel
        self.ncpu = ncpu
        self.pick = pick
        self.pools = []
        self.barriers = []
        self.contexts = []
        self.pool_start_error = None    # armed by the world: the next Pool() fails to start its workers
        self.pool_start_fired = False
        self._wid = 0
        self._id = 0
        self.shared_memory = None     # set by the sandbox
        self.worker_side_globals = {}

    def restore_worker_side_globals(self):
        """Forget what only worker processes would have known (see SimPool._worker_main)."""
        for (g, name, old) in self.worker_side_globals.values():
            if old is _ABSENT:
                g.pop(name, None)
            else:
                g[name] = old

    def next_worker_id(self):
        self._wid += 1
        return self._wid - 1

    def next_id(self):
        self._id += 1
        return self._id

    def cpu_count(self):
        return self.ncpu

    def get_context(self, method=None):
        c = SimContext(self, method)
        self.contexts.append(c)
        return c

    def get_start_method(self, allow_none=False):
        return "fork"

    def set_start_method(self, method, force=False):
        pass

    def Barrier(self, parties, action=None, timeout=None):
        return self.get_context().Barrier(parties, action, timeout)

    def Pool(self, processes=None, initializer=None, initargs=(), maxtasksperchild=None):
        return self.get_context().Pool(processes, initializer, initargs, maxtasksperchild)

    def Lock(self):
        return self.get_context().Lock()

    def Event(self):
        return self.get_context().Event()

    def Condition(self, lock=None):
        return self.get_context().Condition(lock)

    def current_process(self):
        return _real_mp.current_process()

    def __getattr__(self, name):
        raise HarnessError("simulated multiprocessing has no model for %r" % name)


# ---------------------------------------------------------------------------------------
# Shared memory: the production class over a sandboxed name space
# ---------------------------------------------------------------------------------------
class ShmSandbox:
    """Loads a private copy of ``multiprocessing/shared_memory.py`` and rebinds only its
    ``_posixshmem`` (shm_open / shm_unlink), ``resource_tracker`` and ``os.ftruncate``
    references: names live as files in ``root``; create/attach/EEXIST/ENOENT/close/unlink
    behave as in production.  Records every operation, can pre-fill new segments with a
    pattern, can make the n-th create fail, and keeps the final content of unlinked
    segments."""

    def __init__(self, root, kernel=None):
        self.root = root
        self.k = kernel
        self.fill = None               # None = zeros (as the OS does) | 8-byte pattern
        self.fail_create = {}          # ordinal of create (0-based) -> OSError instance
        self.ncreate = 0
        self.created = []              # names created
        self.unlinked = []             # names unlinked
        self.final = {}                # name -> bytes at unlink time
        self.ops = []
        self.tracker = []
        self._pending_fill = {}
        sandbox = self

        class _FakePosixShmem:
            @staticmethod
            def shm_open(name, flags, mode=0o777):
                sandbox._yield("shm_open")
                path = sandbox._path(name)
                creating = bool(flags & os.O_CREAT)
                if creating:
                    n = sandbox.ncreate
                    sandbox.ncreate += 1
                    if n in sandbox.fail_create:
                        sandbox.ops.append(("create-failed", name))
                        raise sandbox.fail_create[n]
                fd = os.open(path, flags, mode)
                if creating:
                    sandbox.created.append(name)
                    sandbox._pending_fill[fd] = name
                    sandbox.ops.append(("create", name))
                else:
                    sandbox.ops.append(("attach", name))
                return fd

            @staticmethod
            def shm_unlink(name):
                sandbox._yield("shm_unlink")
                path = sandbox._path(name)
                try:
                    with open(path, "rb") as f:
                        sandbox.final[name] = f.read()
                except FileNotFoundError:
                    pass
                os.unlink(path)
                sandbox.unlinked.append(name)
                sandbox.ops.append(("unlink", name))

        class _FakeTracker:
            @staticmethod
            def register(name, rtype):
                sandbox.tracker.append(("register", name))

            @staticmethod
            def unregister(name, rtype):
                sandbox.tracker.append(("unregister", name))

        class _OsProxy:
            def __getattr__(self, attr):
                return getattr(os, attr)

            @staticmethod
            def ftruncate(fd, size):
                os.ftruncate(fd, size)
                name = sandbox._pending_fill.pop(fd, None)
                if name is not None and sandbox.fill is not None and size:
                    pat = sandbox.fill
                    os.pwrite(fd, (pat * (size // len(pat) + 1))[:size], 0)

        spec = importlib.util.spec_from_file_location("_verif_sim_shared_memory", _real_shm.__file__)
        mod = importlib.util.module_from_spec(spec)
        mod.__package__ = "multiprocessing"
        spec.loader.exec_module(mod)
        if not getattr(mod, "_USE_POSIX", False):
            raise HarnessError("posix shared memory expected")
        mod._posixshmem = _FakePosixShmem
        mod.resource_tracker = _FakeTracker
        mod.os = _OsProxy()
        self.module = mod
        self.SharedMemory = mod.SharedMemory

    def _path(self, name):
        return os.path.join(self.root, name.lstrip("/").replace("/", "_"))

    def _yield(self, site):
        if self.k is not None:
            self.k.yield_point("shm:" + site)

    def existing(self):
        """Names created through the sandbox that still exist."""
        return [n for n in self.created if os.path.exists(self._path(n))]

    def cleanup(self):
        for n in os.listdir(self.root):
            try:
                os.unlink(os.path.join(self.root, n))
            except OSError:
                pass
