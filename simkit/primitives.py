"""Simulated synchronisation primitives on top of the kernel.

``SimBarrier`` *is* CPython's ``threading.Barrier`` (which is also the code behind
``multiprocessing.Barrier``: ``class Barrier(threading.Barrier)`` with its two integers
in shared memory) -- only the condition variable underneath is simulated, so the
barrier state machine that runs here (arrival index, filling/draining/resetting/broken
states, reset() and abort() semantics) is the production one.
"""
import threading

from .kernel import HarnessError, SimKilled


class SimLock:
    def __init__(self, kernel, label="lock", pick=None):
        self.k = kernel
        self.label = label
        self.owner = None
        self.waiters = []
        self._pick = pick          # pick(n) -> index of the waiter to wake (None: FIFO)

    def acquire(self, blocking=True, timeout=-1):
        k = self.k
        k.yield_point(self.label + ":acq")
        t = k.current
        if t is None:
            if k.teardown:
                raise SimKilled()
            raise HarnessError("SimLock used outside a simulated task")
        deadline = None if (timeout is None or timeout < 0) else k.now + timeout
        while self.owner is not None:
            if not blocking:
                return False
            self.waiters.append(t)
            remaining = None if deadline is None else max(0.0, deadline - k.now)
            timed_out = k.block(self, remaining, self.label)
            if t in self.waiters:
                self.waiters.remove(t)
            if timed_out and self.owner is not None:
                return False
        self.owner = t
        return True

    def release(self):
        k = self.k
        if k.teardown:
            raise SimKilled()
        self.owner = None
        live = [w for w in self.waiters if not w.dead]
        if live:
            i = self._pick(len(live)) if (self._pick and len(live) > 1) else 0
            w = live[i]
            self.waiters.remove(w)
            k.wake(w, self.label + ":wake")

    def locked(self):
        return self.owner is not None

    def __enter__(self):
        self.acquire()
        return self

    def __exit__(self, *a):
        self.release()


class SimCondition:
    def __init__(self, kernel, lock=None, label="cond"):
        self.k = kernel
        self.label = label
        self.lock = lock or SimLock(kernel, label + ".lock")
        self.waiters = []
        self.acquire = self.lock.acquire
        self.release = self.lock.release

    def __enter__(self):
        self.lock.acquire()
        return self

    def __exit__(self, *a):
        self.lock.release()

    def wait(self, timeout=None):
        k = self.k
        t = k.current
        if k.teardown:
            raise SimKilled()
        if self.lock.owner is not t:
            raise RuntimeError("cannot wait on un-acquired lock")
        self.waiters.append(t)
        self.lock.release()
        timed_out = k.block(self, timeout, self.label)
        if t in self.waiters:
            self.waiters.remove(t)
        self.lock.acquire()
        return not timed_out

    def wait_for(self, predicate, timeout=None):
        endtime = None
        waittime = timeout
        result = predicate()
        while not result:
            if waittime is not None:
                if endtime is None:
                    endtime = self.k.now + waittime
                else:
                    waittime = endtime - self.k.now
                    if waittime <= 0:
                        break
            self.wait(waittime)
            result = predicate()
        return result

    def notify(self, n=1):
        k = self.k
        if k.teardown:
            raise SimKilled()
        woken = 0
        for w in list(self.waiters):
            if woken >= n:
                break
            self.waiters.remove(w)
            if not w.dead:
                k.wake(w, self.label + ":notify")
                woken += 1

    def notify_all(self):
        self.notify(len(self.waiters))


class SimEvent:
    def __init__(self, kernel, label="event"):
        self.k = kernel
        self.label = label
        self.flag = False
        self.waiters = []

    def is_set(self):
        return self.flag

    def set(self):
        self.flag = True
        for w in list(self.waiters):
            self.waiters.remove(w)
            self.k.wake(w, self.label + ":set")

    def clear(self):
        self.flag = False

    def wait(self, timeout=None):
        k = self.k
        k.yield_point(self.label + ":wait")
        if self.flag:
            return True
        t = k.current
        self.waiters.append(t)
        k.block(self, timeout, self.label)
        if t in self.waiters:
            self.waiters.remove(t)
        return self.flag


class SimBarrier(threading.Barrier):
    """CPython's Barrier logic over a simulated condition variable."""

    def __init__(self, kernel, parties, action=None, timeout=None, label="barrier", pick=None):
        super().__init__(parties, action, timeout)
        self._cond = SimCondition(kernel, SimLock(kernel, label + ".lock", pick), label)
        self.k = kernel
        self.label = label
        self.stats = {"wait": 0, "reset": 0, "abort": 0, "reset_with_waiter": 0}

    def wait(self, timeout=None):
        self.stats["wait"] += 1
        return super().wait(timeout)

    def reset(self):
        self.stats["reset"] += 1
        if self._count > 0:
            self.stats["reset_with_waiter"] += 1
        return super().reset()

    def abort(self):
        self.stats["abort"] += 1
        return super().abort()
