"""Minimise a failing decision list while the same violation class persists.

``test(values) -> (interesting: bool, normalised_values)`` replays the case with the given
values; ``normalised_values`` is what the run actually drew (so unused tails disappear).
Passes: truncate, delete chunks, zero chunks, lower single values -- repeated until a fixed
point or the budget is exhausted.  Everything is deterministic."""
import time


def shrink(values, test, budget_s=60.0, max_tests=1500, hints=None):
    """``hints(values) -> iterable of candidate lists`` (optional, check-specific, e.g. "drop one whole
    operation of the history"): tried first in every round."""
    t0 = time.time()
    best = list(values)
    ntests = [0]
    cache = {}

    def out_of_budget():
        return (time.time() - t0) > budget_s or ntests[0] >= max_tests

    def attempt(cand):
        nonlocal best
        key = tuple(cand)
        if key in cache:
            return False
        if out_of_budget():
            return False
        ntests[0] += 1
        ok, norm = test(list(cand))
        cache[key] = ok
        if ok:
            norm = list(norm)
            # accept only strict shortlex improvements (guarantees termination)
            if (len(norm), norm) < (len(best), best):
                best = norm
                return True
        return False

    improved = True
    rounds = 0
    while improved and not out_of_budget():
        improved = False
        rounds += 1
        # 0. check-specific structural candidates
        if hints is not None:
            progress = True
            while progress and not out_of_budget():
                progress = False
                for cand in hints(list(best)):
                    if out_of_budget():
                        break
                    if attempt(cand):
                        improved = progress = True
                        break
        # 1. truncate
        n = len(best)
        cut = n // 2
        while cut >= 1 and not out_of_budget():
            if len(best) > cut and attempt(best[:len(best) - cut]):
                improved = True
            else:
                cut //= 2
        # 2. delete chunks
        size = max(1, len(best) // 2)
        while size >= 1 and not out_of_budget():
            i = 0
            while i < len(best) and not out_of_budget():
                cand = best[:i] + best[i + size:]
                if len(cand) < len(best) and attempt(cand):
                    improved = True
                else:
                    i += size
            size //= 2
        # 3. zero chunks
        size = max(1, len(best) // 2)
        while size >= 1 and not out_of_budget():
            i = 0
            while i < len(best) and not out_of_budget():
                if any(best[i:i + size]):
                    cand = best[:i] + [0] * len(best[i:i + size]) + best[i + size:]
                    if attempt(cand):
                        improved = True
                i += size
            size //= 2
        # 4. lower single values
        i = 0
        while i < len(best) and not out_of_budget():
            v = best[i]
            if v > 0:
                for nv in (0, v // 2, v - 1):
                    if i < len(best) and nv < best[i]:
                        cand = list(best)
                        cand[i] = nv
                        if attempt(cand):
                            improved = True
                            break
            i += 1
    return best, {"tests": ntests[0], "rounds": rounds, "wall_s": round(time.time() - t0, 2)}
