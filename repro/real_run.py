#!/venv/bin/python
"""Run the REAL BANE.filter_image (real multiprocessing, real /dev/shm) once and save the maps.
usage: real_run.py <image.fits> <out.npz> <json config>   -- used by the model-conformance step of bin/check C07."""
import json
import logging
import os
import sys

sys.path.insert(0, os.environ.get("VERIF_REPO", "/repo"))
import numpy as np                                   # noqa: E402
logging.disable(logging.CRITICAL)
from AegeanTools import BANE                         # noqa: E402

cfg = json.loads(sys.argv[3])
os.setsid()
created = []
_RealSM = BANE.SharedMemory


class _RecordingSM(_RealSM):
    """Only records the names this run creates, so that the parent looks at those and at nothing else in /dev/shm."""

    def __init__(self, name=None, create=False, size=0):
        super().__init__(name=name, create=create, size=size)
        if create:
            created.append(self.name)
            with open(sys.argv[2] + ".segments", "a") as f:
                f.write(self.name + "\n")


BANE.SharedMemory = _RecordingSM
bkg, rms = BANE.filter_image(sys.argv[1], None, step_size=tuple(cfg["grid"]), box_size=tuple(cfg["box"]),
                             cores=cfg["cores"], mask=cfg["mask"], nslice=cfg["nslice"], cube_index=cfg["cube_index"])
np.savez(sys.argv[2], bkg=bkg, rms=rms)
