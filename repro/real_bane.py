#!/venv/bin/python
"""Reproductions against the REAL code with REAL processes (no simulator), each under a watchdog.

usage: repro/real_bane.py {D1|D2|D3|D4|D5}    (exit 0 = behaves, 1 = defect shown)
  D1  stripes > cores: 101 rows, grid 16, cores=2 (default stripes) -> 3 stripes, pool of 2
  D2  one stripe raises in pass 1 -> the others wait at the barrier for ever
  D3  the first arriver is delayed between barrier.wait() and barrier.reset()
  D4  DC offset 1000, two stripes: noise map polluted at the stripe boundary
  D5  a worker process is killed (SIGKILL) while it holds a stripe
Faults/delays are put into the real worker processes without touching /repo by rebinding module
attributes of AegeanTools.BANE in the parent before the pool forks.
"""
import multiprocessing
import os
import signal
import sys
import tempfile
import time

sys.path.insert(0, os.environ.get("VERIF_REPO", "/repo"))
import numpy as np                                   # noqa: E402
from astropy.io import fits                          # noqa: E402
from AegeanTools import BANE                         # noqa: E402

WATCHDOG_S = 25


def _image(path, rows, cols, offset=0.0):
    rs = np.random.RandomState(1)
    fits.PrimaryHDU((rs.normal(0, 1, (rows, cols)) + offset).astype(np.float32)).writeto(path, overwrite=True)


def _is_first_pool_worker():
    ident = multiprocessing.current_process()._identity     # (1,) = watchdog child, (1, n) = its pool workers
    return len(ident) == 2 and ident[-1] == 1


class _KnownUUID:
    """uuid4() -> a value the watchdog knows, so that only this run's own /dev/shm segments are looked at."""

    def __init__(self, tag):
        self.tag = tag

    def uuid4(self):
        return self.tag


def _child(case, path, q, tag):
    import logging
    os.setsid()                 # own process group, so the watchdog can kill the whole family
    BANE.uuid = _KnownUUID(tag)
    logging.disable(logging.CRITICAL)
    if case == "D1":
        r = BANE.filter_image(path, None, step_size=(16, 16), box_size=(32, 32), cores=2)
        q.put(("returned", float(np.nanmax(r[1]))))
    elif case == "D2":
        real = BANE.sigmaclip
        calls = {"n": 0}

        def bad(arr, lo, hi, reps=10):
            if BANE.memory_id is not None and os.getpid() % 2 == 0 and multiprocessing.current_process().name != "MainProcess":
                pass
            return real(arr, lo, hi, reps)
        real_open = BANE.fits.open

        class F:
            def __getattr__(self, n):
                return getattr(fits, n)

            def open(self, *a, **k):
                if _is_first_pool_worker():
                    raise OSError(5, "injected I/O error in one stripe")
                return fits.open(*a, **k)
        BANE.fits = F()
        try:
            r = BANE.filter_image(path, None, step_size=(8, 8), box_size=(16, 16), cores=2, nslice=2)
            q.put(("returned", None))
        except BaseException as e:       # noqa: BLE001
            q.put(("raised", type(e).__name__))
    elif case == "D3":
        real_init = BANE.init

        class SlowReset:
            def __init__(self, b):
                self.b = b

            def wait(self, *a):
                return self.b.wait(*a)

            def reset(self):
                time.sleep(3.0)          # descheduled between wait() returning 0 and reset()
                return self.b.reset()

            def abort(self):
                return self.b.abort()

        def init(b, mem):
            real_init(SlowReset(b), mem)
        BANE.init = init
        try:
            r = BANE.filter_image(path, None, step_size=(8, 8), box_size=(16, 16), cores=2, nslice=2)
            q.put(("returned", None))
        except BaseException as e:       # noqa: BLE001
            q.put(("raised", type(e).__name__))
    elif case == "D4":
        out = {}
        for ns in (1, 2):
            _, rms = BANE.filter_image(path, None, step_size=(8, 8), box_size=(32, 32), cores=2, nslice=ns)
            out[ns] = (float(np.nanmean(rms)), float(np.nanmax(rms)))
        q.put(("returned", out))
    elif case == "D5":
        real_init = BANE.init

        def init(b, mem):
            real_init(b, mem)
            if _is_first_pool_worker():
                import threading
                threading.Timer(0.05, lambda: os.kill(os.getpid(), signal.SIGKILL)).start()
                real_wait = b.wait
        BANE.init = init
        real_sc = BANE.sigmaclip

        def slow(arr, lo, hi, reps=10):
            time.sleep(0.002)
            return real_sc(arr, lo, hi, reps)
        BANE.sigmaclip = slow
        try:
            r = BANE.filter_image(path, None, step_size=(8, 8), box_size=(16, 16), cores=2, nslice=2)
            q.put(("returned", None))
        except BaseException as e:       # noqa: BLE001
            q.put(("raised", type(e).__name__))


def main():
    case = sys.argv[1]
    tmp = tempfile.mkdtemp(prefix="verif-repro-")
    path = os.path.join(tmp, "img.fits")
    if case == "D1":
        _image(path, 101, 64)
    elif case == "D4":
        _image(path, 100, 64, offset=1000.0)
    else:
        _image(path, 64, 48)
    tag = "verif-repro-%d-%s" % (os.getpid(), case)
    mine = ["ibkg_" + tag, "irms_" + tag]
    ctx = multiprocessing.get_context("fork")
    q = ctx.Queue()
    p = ctx.Process(target=_child, args=(case, path, q, tag))
    t0 = time.time()
    p.start()
    p.join(WATCHDOG_S)
    hung = p.is_alive()
    if hung:
        # kill the whole family (the child is a session/group leader)
        try:
            os.killpg(p.pid, signal.SIGKILL)
        except ProcessLookupError:
            pass
        p.join()
    dt = time.time() - t0
    res = None
    try:
        res = q.get(timeout=1)
    except Exception:       # noqa: BLE001
        pass
    left = sorted(n for n in mine if os.path.exists(os.path.join("/dev/shm", n)))
    for n in left:
        try:
            os.unlink(os.path.join("/dev/shm", n))
        except OSError:
            pass
    import shutil
    shutil.rmtree(tmp, ignore_errors=True)
    print("%s: hung=%s after %.1fs result=%s left-in-/dev/shm=%s" % (case, hung, dt, res, left))
    bad = hung or bool(left)
    if case == "D4" and res:
        bad = bad or res[1][2][1] > 5.0
    if case in ("D2", "D5") and res and res[0] == "returned":
        bad = True
    return 1 if bad else 0


if __name__ == "__main__":
    sys.exit(main())
